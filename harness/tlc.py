"""Thin, strict wrapper around TLC: run a config, parse statistics / violations / dumps.

Everything that goes wrong on the tool side raises MachineryError (exit 2 in the CLI) so
that a tool failure is never confused with a property violation.
"""
from __future__ import annotations

import json
import os
import re
import shutil
import subprocess
import tempfile
import time
from dataclasses import dataclass, field
from pathlib import Path
from typing import Any, Dict, List, Optional, Tuple

SPECS = Path(__file__).resolve().parent.parent / "specs"
JAR = "/opt/veriftools/tla/tla2tools.jar:/opt/veriftools/tla/CommunityModules-deps.jar"


class MachineryError(RuntimeError):
    pass


# --------------------------------------------------------------------------------------
# scratch handling
# --------------------------------------------------------------------------------------
_SCRATCH: Optional[Path] = None


def scratch() -> Path:
    """A per-process scratch directory, removed at exit (never under /repo or /verif)."""
    global _SCRATCH
    if _SCRATCH is None:
        base = os.environ.get("VERIF_SCRATCH")
        if base:
            Path(base).mkdir(parents=True, exist_ok=True)
        _SCRATCH = Path(tempfile.mkdtemp(prefix="plinio-verif-", dir=base))
        import atexit
        atexit.register(lambda: shutil.rmtree(_SCRATCH, ignore_errors=True))
    return _SCRATCH


# --------------------------------------------------------------------------------------
# TLA+ value parser (records, sequences, sets, functions, strings, ints, booleans)
# --------------------------------------------------------------------------------------
class _P:
    def __init__(self, s: str):
        self.s = s
        self.i = 0

    def ws(self):
        while self.i < len(self.s) and self.s[self.i] in " \t\r\n":
            self.i += 1

    def peek(self, n=1):
        return self.s[self.i:self.i + n]

    def eat(self, tok: str):
        self.ws()
        if not self.s.startswith(tok, self.i):
            raise MachineryError(f"TLA value parse: expected {tok!r} at {self.i}: {self.s[self.i:self.i+40]!r}")
        self.i += len(tok)

    def value(self) -> Any:
        self.ws()
        c = self.peek()
        if c == '"':
            return self.string()
        if c == "<" and self.peek(2) == "<<":
            return self.seq()
        if c == "{":
            return self.set_()
        if c == "[":
            return self.rec_or_fun()
        if c == "(":
            return self.funpairs()
        m = re.compile(r"-?\d+").match(self.s, self.i)
        if m:
            self.i = m.end()
            return int(m.group())
        m = re.compile(r"[A-Za-z_][A-Za-z0-9_]*").match(self.s, self.i)
        if m:
            self.i = m.end()
            w = m.group()
            if w == "TRUE":
                return True
            if w == "FALSE":
                return False
            return w  # model value
        raise MachineryError(f"TLA value parse: unexpected at {self.i}: {self.s[self.i:self.i+40]!r}")

    def string(self) -> str:
        self.eat('"')
        out = []
        while True:
            c = self.s[self.i]
            if c == "\\":
                out.append(self.s[self.i + 1])
                self.i += 2
            elif c == '"':
                self.i += 1
                break
            else:
                out.append(c)
                self.i += 1
        return "".join(out)

    def seq(self) -> list:
        self.eat("<<")
        out = []
        self.ws()
        if self.peek(2) == ">>":
            self.i += 2
            return out
        while True:
            out.append(self.value())
            self.ws()
            if self.peek(2) == ">>":
                self.i += 2
                return out
            self.eat(",")

    def set_(self) -> frozenset:
        self.eat("{")
        out = []
        self.ws()
        if self.peek() == "}":
            self.i += 1
            return frozenset()
        while True:
            out.append(_freeze(self.value()))
            self.ws()
            if self.peek() == "}":
                self.i += 1
                return frozenset(out)
            self.eat(",")

    def rec_or_fun(self) -> dict:
        self.eat("[")
        out = {}
        while True:
            self.ws()
            m = re.compile(r"[A-Za-z_][A-Za-z0-9_]*").match(self.s, self.i)
            if not m:
                raise MachineryError(f"TLA value parse: record field at {self.i}")
            k = m.group()
            self.i = m.end()
            self.eat("|->")
            out[k] = self.value()
            self.ws()
            if self.peek() == "]":
                self.i += 1
                return out
            self.eat(",")

    def funpairs(self) -> dict:
        # (a :> 1 @@ b :> 2)
        self.eat("(")
        out = {}
        while True:
            k = self.value()
            self.eat(":>")
            v = self.value()
            out[_freeze(k)] = v
            self.ws()
            if self.peek() == ")":
                self.i += 1
                return out
            self.eat("@@")


def _freeze(v):
    if isinstance(v, list):
        return tuple(_freeze(x) for x in v)
    if isinstance(v, dict):
        return tuple(sorted((k, _freeze(x)) for k, x in v.items()))
    return v


def parse_value(s: str) -> Any:
    p = _P(s)
    v = p.value()
    p.ws()
    if p.i != len(p.s):
        raise MachineryError(f"TLA value parse: trailing text {p.s[p.i:p.i+40]!r}")
    return v


def parse_state(text: str) -> Dict[str, Any]:
    """Parse a TLC state `/\\ a = ...\\n/\\ b = ...` (or single `a = ...`) into a dict."""
    text = text.strip()
    # split on top-level conjuncts that start a line
    parts = re.split(r"(?m)^/\\ ", text)
    out = {}
    for part in parts:
        part = part.strip()
        if not part:
            continue
        m = re.match(r"([A-Za-z_][A-Za-z0-9_]*) = ", part)
        if not m:
            raise MachineryError(f"TLA state parse: {part[:60]!r}")
        out[m.group(1)] = parse_value(part[m.end():])
    return out


# --------------------------------------------------------------------------------------
# running TLC
# --------------------------------------------------------------------------------------
@dataclass
class TLCResult:
    module: str
    cfg: str
    generated: int = 0
    distinct: int = 0
    depth: int = 0
    wall_s: float = 0.0
    ok: bool = False                      # finished without any invariant/property violation
    violations: List[Dict[str, Any]] = field(default_factory=list)   # {'kind', 'name', 'state': {...}}
    coverage: Dict[str, Tuple[int, int]] = field(default_factory=dict)
    out: str = ""
    cmd: str = ""


def run_tlc(module: str, cfg: str, *, workers: int | str = "auto", env: Optional[Dict[str, str]] = None,
            timeout: int = 1800, cont: bool = False, coverage: bool = False, simulate: Optional[str] = None,
            depth: Optional[int] = None, seed: Optional[int] = None, dump_dot: Optional[str] = None,
            deadlock: bool = False, extra: Optional[List[str]] = None, heap: str = "8g") -> TLCResult:
    """Run TLC on /verif/specs/<module>.tla with /verif/specs/<cfg>.cfg."""
    meta = tempfile.mkdtemp(prefix="meta-", dir=scratch())
    cmd = ["java", f"-Xmx{heap}", "-XX:+UseParallelGC", "-cp", JAR, "tlc2.TLC",
           "-metadir", meta, "-noGenerateSpecTE", "-workers", str(workers),
           "-config", f"{cfg}.cfg" if not cfg.endswith(".cfg") else cfg]
    if not deadlock:
        cmd.append("-deadlock")           # "-deadlock" DISABLES deadlock checking
    if cont:
        cmd.append("-continue")
    if coverage:
        cmd += ["-coverage", "1"]
    if simulate is not None:
        cmd += ["-simulate", simulate]
    if depth is not None:
        cmd += ["-depth", str(depth)]
    if seed is not None:
        cmd += ["-seed", str(seed)]
    if dump_dot is not None:
        cmd += ["-dump", "dot,actionlabels", dump_dot]
    if extra:
        cmd += extra
    cmd.append(f"{module}.tla")
    e = dict(os.environ)
    if env:
        e.update(env)
    t0 = time.time()
    # TLC's output goes to a FILE, not to a pipe: a worker process forked by a check while TLC runs in another thread
    # would inherit the pipe and keep it open, and subprocess.run would wait for its end of file for ever
    outf = os.path.join(meta, "tlc.out")
    try:
        with open(outf, "w") as fo:
            pr = subprocess.run(cmd, cwd=SPECS, env=e, stdout=fo, stderr=subprocess.STDOUT, stdin=subprocess.DEVNULL,
                                text=True, timeout=timeout)
        out = open(outf, errors="replace").read()
    except subprocess.TimeoutExpired as ex:
        raise MachineryError(f"TLC timeout after {timeout}s: {' '.join(cmd)}") from ex
    finally:
        shutil.rmtree(meta, ignore_errors=True)
    res = TLCResult(module=module, cfg=cfg, out=out, cmd=" ".join(cmd), wall_s=time.time() - t0)
    m = None
    for m in re.finditer(r"(\d+) states generated, (\d+) distinct states found", out):
        pass
    if m:
        res.generated, res.distinct = int(m.group(1)), int(m.group(2))
    m = re.search(r"The depth of the complete state graph search is (\d+)", out)
    if m:
        res.depth = int(m.group(1))
    res.violations = _parse_violations(out)
    fatal = re.search(r"(?m)^Error: (?!Invariant |Action property |Temporal|The behavior up to|The following behavior)"
                      r"(.*)$", out)
    parse_err = "Parsing or semantic analysis failed" in out or "***Parse Error***" in out
    if parse_err or (fatal and not res.violations) or (pr.returncode not in (0, 12, 13) and not res.violations):
        raise MachineryError(f"TLC failed (rc={pr.returncode}) on {module}/{cfg}:\n{out[-3000:]}")
    if fatal and res.violations:
        # evaluation errors while -continue'ing are machinery failures too
        msg = fatal.group(1)
        if "evaluat" in msg.lower() or "Attempted" in msg:
            raise MachineryError(f"TLC evaluation error on {module}/{cfg}:\n{out[-3000:]}")
    if simulate is None and "Model checking completed" not in out and not res.violations:
        raise MachineryError(f"TLC did not complete on {module}/{cfg}:\n{out[-2000:]}")
    res.ok = not res.violations
    if coverage:
        res.coverage = _parse_coverage(out)
    return res


def _parse_violations(out: str) -> List[Dict[str, Any]]:
    vs = []
    # initial-state violations
    pat = re.compile(r"Error: Invariant (\S+) is violated(?: by the initial state:\n((?:.+\n)+?)\n)?")
    pos = 0
    lines = out.split("\n")
    i = 0
    while i < len(lines):
        ln = lines[i]
        m = re.match(r"Error: Invariant (\S+) is violated by the initial state:", ln)
        if m:
            j = i + 1
            buf = []
            while j < len(lines) and lines[j].strip() != "":
                buf.append(lines[j])
                j += 1
            vs.append({"kind": "invariant", "name": m.group(1), "state": _safe_state("\n".join(buf)), "trace": None})
            i = j
            continue
        m = re.match(r"Error: (?:Invariant (\S+) is violated\.|Action property (\S+) is violated\.)", ln)
        if m:
            name = m.group(1) or m.group(2)
            kind = "invariant" if m.group(1) else "action_property"
            # subsequent "State N: <...>" blocks
            j = i + 1
            states = []
            cur = None
            while j < len(lines):
                l2 = lines[j]
                if re.match(r"State \d+: ", l2):
                    if cur is not None:
                        states.append(cur)
                    cur = {"label": l2, "text": []}
                elif l2.startswith("Error: The behavior up to") or l2.startswith("Error: The following behavior"):
                    pass
                elif l2.startswith("Error:") or re.match(r"\d+ states generated", l2) or l2.startswith("Finished") \
                        or l2.startswith("Progress("):
                    break
                elif cur is not None:
                    if l2.strip() == "":
                        states.append(cur)
                        cur = None
                    else:
                        cur["text"].append(l2)
                j += 1
            if cur is not None:
                states.append(cur)
            tr = [{"label": s["label"], "state": _safe_state("\n".join(s["text"]))} for s in states]
            vs.append({"kind": kind, "name": name, "state": tr[-1]["state"] if tr else {}, "trace": tr})
            i = j
            continue
        i += 1
    return vs


def _safe_state(text: str) -> Dict[str, Any]:
    try:
        return parse_state(text)
    except MachineryError:
        return {"_raw": text}


def _parse_coverage(out: str) -> Dict[str, Tuple[int, int]]:
    cov = {}
    for m in re.finditer(r"(?m)^<(\w+) line \d+, col \d+ to line \d+, col \d+ of module (\w+)>: (\d+):(\d+)", out):
        cov[f"{m.group(2)}!{m.group(1)}"] = (int(m.group(3)), int(m.group(4)))
    return cov


# --------------------------------------------------------------------------------------
# sany
# --------------------------------------------------------------------------------------
def sany(module: str) -> None:
    cmd = ["java", "-cp", JAR, "tla2sany.SANY", f"{module}.tla"]
    pr = subprocess.run(cmd, cwd=SPECS, capture_output=True, text=True, timeout=300)
    out = pr.stdout + pr.stderr
    if pr.returncode != 0 or "*** Errors" in out or "Parse Error" in out or "Fatal errors" in out \
            or "Semantic errors" in out:
        raise MachineryError(f"SANY failed on {module}:\n{out[-3000:]}")


# --------------------------------------------------------------------------------------
# batched trace validation
# --------------------------------------------------------------------------------------
def validate_traces(module: str, cfg: str, traces: List[Any], *, chunk: int = 4000, timeout: int = 3600,
                    workers: int | str = "auto", env: Optional[Dict[str, str]] = None) -> Tuple[List[str], Dict[str, Any]]:
    """Validate a list of traces with a batched trace spec.

    The trace module must define  Traces == JsonDeserialize(IOEnv.TRACE_FILE), variables
    `tid` and `verdict`, and the cfg must declare INVARIANT VerdictOk (verdict = "ok").  TLC is
    run with -continue so that every rejected trace is listed.  Returns one verdict per trace
    ("ok" or the clause string) and accumulated TLC statistics.
    """
    verdicts = ["?"] * len(traces)
    stats = {"generated": 0, "distinct": 0, "wall_s": 0.0, "runs": 0}
    for lo in range(0, len(traces), chunk):
        part = traces[lo:lo + chunk]
        tf = Path(tempfile.mkstemp(prefix="traces-", suffix=".json", dir=scratch())[1])
        tf.write_text(json.dumps(part))
        e = {"TRACE_FILE": str(tf)}
        if env:
            e.update(env)
        res = run_tlc(module, cfg, workers=workers, env=e, timeout=timeout, cont=True)
        tf.unlink(missing_ok=True)
        stats["generated"] += res.generated
        stats["distinct"] += res.distinct
        stats["wall_s"] += res.wall_s
        stats["runs"] += 1
        seen = set()
        for v in res.violations:
            st = v["state"]
            if "tid" not in st or "verdict" not in st:
                raise MachineryError(f"trace run {module}: violation without tid/verdict: {v}")
            k = st["tid"] - 1
            if k in seen:
                continue
            seen.add(k)
            verdicts[lo + k] = str(st["verdict"])
        # every trace must have been looked at: distinct states >= number of traces
        if res.distinct < len(part):
            raise MachineryError(f"trace run {module}: only {res.distinct} states for {len(part)} traces\n{res.out[-1500:]}")
        for k in range(len(part)):
            if verdicts[lo + k] == "?":
                verdicts[lo + k] = "ok"
    return verdicts, stats


# --------------------------------------------------------------------------------------
# state dumps:  tlc -dump dot,actionlabels
# --------------------------------------------------------------------------------------
def parse_dot(path: str) -> Tuple[Dict[str, Dict[str, Any]], List[Tuple[str, str, str]], List[str]]:
    """Return (nodes: id -> state dict, edges: (src, dst, action), initial ids)."""
    txt = Path(path).read_text()
    nodes: Dict[str, Dict[str, Any]] = {}
    edges: List[Tuple[str, str, str]] = []
    init: List[str] = []
    def unesc(lab: str) -> str:
        return lab.replace("\\n", "\n").replace('\\"', '"').replace("\\\\", "\\")
    for m in re.finditer(r'(?m)^(-?\d+) \[label="((?:[^"\\]|\\.)*)"(,style = filled)?', txt):
        nid, lab, filled = m.group(1), m.group(2), m.group(3)
        nodes[nid] = parse_state(unesc(lab))
        if filled:
            init.append(nid)
    for m in re.finditer(r'(?m)^(-?\d+) -> (-?\d+) \[label="((?:[^"\\]|\\.)*)"', txt):
        edges.append((m.group(1), m.group(2), unesc(m.group(3))))
    return nodes, edges, init
