"""Abstract architecture (the node sequence of specs/FeatGraph.tla)  ->  real torch module.

arch = {"dim": 1|2, "c0": int, "sp": int, "nodes": [node, ...]}
node = {"op": ..., "ins": [i, ...], "out": int, "k": int, "d": int, "s": int, "bias": bool, "bn": bool,
        "dw": bool, "excl": bool, "causal": bool, "reuse": int}
Tensor 0 is the network input, tensor i (1-based) the output of nodes[i-1]; the network output is
the last tensor.  ops: conv | lin | relu | relu6 | sig | tanh | silu | drop | lsm (log_softmax over the features) | bns (standalone BatchNorm) | pool | flat | gsq | add | cat | catt | id  (gsq = AdaptiveAvgPool1d(1) followed by
.squeeze(d), d = node field 'd' in {2, -1}).
All layers are plain torch.nn leaf modules in a ModuleDict; forward() iterates over the node list in
Python, so torch.fx traces exactly the intended graph.
"""
from __future__ import annotations

from typing import Any, Dict, List

import torch
import torch.nn as nn

DEFAULTS = {"ins": [], "out": 0, "k": 1, "d": 1, "s": 1, "bias": True, "bn": False, "dw": False,
            "excl": False, "causal": False, "reuse": 0, "valid": False, "pm": "zeros", "sym": False, "sub": False, "bnaff": True}


def norm_node(n: Dict[str, Any]) -> Dict[str, Any]:
    m = dict(DEFAULTS)
    m.update(n)
    m["ins"] = list(m["ins"])
    return m


def norm_arch(a: Dict[str, Any]) -> Dict[str, Any]:
    return {"dim": int(a["dim"]), "c0": int(a["c0"]), "sp": int(a["sp"]),
            "nodes": [norm_node(n) for n in a["nodes"]]}


def shapes(arch) -> List[Dict[str, int]]:
    """Static (channels, spatial, flat) of every tensor, index 0 = input."""
    sh = [{"ch": arch["c0"], "sp": arch["sp"], "spw": arch["sp"] if arch["dim"] == 2 else 1, "flat": False}]
    for n in arch["nodes"]:
        i0 = sh[n["ins"][0]]
        op = n["op"]
        if op == "conv":
            if n["valid"]:        # un-padded convolution: the output shrinks by d*(k-1)
                sp = (i0["sp"] - n["d"] * (n["k"] - 1) - 1) // n["s"] + 1
                spw = (i0["spw"] - n["d"] * (n["k"] - 1) - 1) // n["s"] + 1 if arch["dim"] == 2 else 1
            else:
                sp = (i0["sp"] - 1) // n["s"] + 1
                spw = (i0["spw"] - 1) // n["s"] + 1 if arch["dim"] == 2 else 1
            sh.append({"ch": i0["ch"] if n["dw"] else n["out"], "sp": sp, "spw": spw, "flat": False})
        elif op == "lin":
            sh.append({"ch": n["out"], "sp": 1, "spw": 1, "flat": True})
        elif op in ("relu", "id", "sig", "tanh", "silu", "drop", "bns", "relu6", "lsm"):
            sh.append(dict(i0))
        elif op == "pool":
            sh.append({"ch": i0["ch"], "sp": i0["sp"] // 2, "spw": i0["spw"] // 2 if arch["dim"] == 2 else 1, "flat": False})
        elif op == "flat":
            sh.append({"ch": i0["ch"] * i0["sp"] * i0["spw"], "sp": 1, "spw": 1, "flat": True})
        elif op == "gsq":       # global average pooling + squeeze of the (single) spatial axis, 1-D nets
            sh.append({"ch": i0["ch"], "sp": 1, "spw": 1, "flat": True})
        elif op == "add":
            sh.append(dict(i0))
        elif op == "cat":
            sh.append({"ch": sum(sh[i]["ch"] for i in n["ins"]), "sp": i0["sp"], "spw": i0["spw"], "flat": i0["flat"]})
        elif op == "catt":
            sh.append({"ch": i0["ch"], "sp": sum(sh[i]["sp"] for i in n["ins"]), "spw": i0["spw"], "flat": False})
        else:
            raise ValueError(op)
    return sh


def lname(i: int) -> str:
    return f"n{i}"


class GrammarNet(nn.Module):
    def __init__(self, arch: Dict[str, Any]):
        super().__init__()
        self.arch = arch = norm_arch(arch)
        dim = arch["dim"]
        sh = shapes(arch)
        self.layers = nn.ModuleDict()
        self.plan = []           # (op, [module names], ins)
        for idx, n in enumerate(arch["nodes"], start=1):
            op = n["op"]
            cin = sh[n["ins"][0]]["ch"]
            names: List[str] = []
            if op == "conv" and n["reuse"]:
                names = list(self.plan[n["reuse"] - 1][1])
            elif op == "conv":
                cout = cin if n["dw"] else n["out"]
                groups = cin if n["dw"] else 1
                k, d, s = n["k"], n["d"], n["s"]
                pm = n["pm"]
                if dim == 1:
                    if n["valid"]:
                        conv = nn.Conv1d(cin, cout, k, stride=s, padding=0, dilation=d, groups=groups, bias=n["bias"])
                    elif n["sym"]:
                        # explicit NON-causal padding (README: un-padded conv + nn.ConstantPad1d): span split evenly
                        if ((k - 1) * d) % 2 or s != 1:
                            raise ValueError("symmetric explicit padding needs an even span and stride 1")
                        self.layers[lname(idx) + "_xpad"] = nn.ConstantPad1d(((k - 1) * d // 2, (k - 1) * d // 2), 0.0)
                        names.append(lname(idx) + "_xpad")
                        conv = nn.Conv1d(cin, cout, k, stride=1, padding=0, dilation=d, groups=groups, bias=n["bias"])
                    elif n["causal"]:
                        # the causal zero pad is an nn.ConstantPad1d or (every third layer, by position and kernel) its
                        # subclass nn.ZeroPad1d: the same layout, spelled the other legal way
                        if (idx + k) % 3 == 0 and hasattr(nn, "ZeroPad1d"):
                            self.layers[lname(idx) + "_xpad"] = nn.ZeroPad1d(((k - 1) * d, 0))
                        else:
                            self.layers[lname(idx) + "_xpad"] = nn.ConstantPad1d(((k - 1) * d, 0), 0.0)
                        names.append(lname(idx) + "_xpad")
                        conv = nn.Conv1d(cin, cout, k, stride=s, padding=0, dilation=d, groups=groups, bias=n["bias"])
                    else:
                        if s != 1:
                            raise ValueError("non-causal strided conv1d not generated")
                        conv = nn.Conv1d(cin, cout, k, stride=1, padding="same", dilation=d, groups=groups, bias=n["bias"],
                                         padding_mode=pm)
                else:
                    if k % 2 == 0:
                        raise ValueError("2-D convs are generated with odd kernels")
                    conv = nn.Conv2d(cin, cout, k, stride=s, padding=0 if n["valid"] else d * (k // 2), dilation=d,
                                     groups=groups, bias=n["bias"], padding_mode="zeros" if n["valid"] else pm)
                self.layers[lname(idx)] = conv
                names.append(lname(idx))
                if n["bn"]:
                    self.layers[lname(idx) + "_bn"] = (nn.BatchNorm1d if dim == 1 else nn.BatchNorm2d)(cout, affine=n["bnaff"])
                    names.append(lname(idx) + "_bn")
            elif op == "lin" and n["reuse"]:
                names = list(self.plan[n["reuse"] - 1][1])
            elif op == "lin":
                self.layers[lname(idx)] = nn.Linear(cin, n["out"], bias=n["bias"])
                names.append(lname(idx))
                if n["bn"]:
                    self.layers[lname(idx) + "_bn"] = nn.BatchNorm1d(n["out"], affine=n["bnaff"])
                    names.append(lname(idx) + "_bn")
            elif op == "relu":
                self.layers[lname(idx)] = nn.ReLU()
                names.append(lname(idx))
            elif op == "id":
                self.layers[lname(idx)] = nn.Identity()
                names.append(lname(idx))
            elif op == "relu6":
                self.layers[lname(idx)] = nn.ReLU6()
                names.append(lname(idx))
            elif op == "bns":       # standalone BatchNorm (not directly fused by construction: see FeatGraph)
                i0 = sh[n["ins"][0]]
                self.layers[lname(idx)] = (nn.BatchNorm2d if (dim == 2 and not i0["flat"]) else nn.BatchNorm1d)(i0["ch"], affine=n["bnaff"])
                names.append(lname(idx))
            elif op == "silu":
                self.layers[lname(idx)] = nn.SiLU()
                names.append(lname(idx))
            elif op == "drop":
                self.layers[lname(idx)] = nn.Dropout(0.3)
                names.append(lname(idx))
            elif op == "pool":
                kind = n.get("kind", "avg")
                if dim == 1:
                    self.layers[lname(idx)] = nn.AvgPool1d(2) if kind == "avg" else nn.MaxPool1d(2)
                else:
                    self.layers[lname(idx)] = nn.AvgPool2d(2) if kind == "avg" else nn.MaxPool2d(2)
                names.append(lname(idx))
            elif op == "flat":
                i0f = sh[n["ins"][0]]
                if dim == 1 and i0f["ch"] == 1 and i0f["sp"] > 1 and not i0f["flat"] and idx % 2 == 0:
                    op = "csq"      # (N, 1, T) -> (N, T): flattening a one-channel tensor spelled as a squeeze of the channel axis
                else:
                    self.layers[lname(idx)] = nn.Flatten(1)
                    names.append(lname(idx))
            elif op == "gsq":
                self.layers[lname(idx)] = nn.AdaptiveAvgPool1d(1)
                names.append(lname(idx))
            self.plan.append((op, names, list(n["ins"])))

    def forward(self, x):
        t = [x]
        for op, names, ins in self.plan:
            if op == "add":
                y = (t[ins[0]] - t[ins[1]]) if self.arch["nodes"][len(t) - 1]["sub"] else (t[ins[0]] + t[ins[1]])
            elif op == "cat":
                y = torch.cat([t[i] for i in ins], dim=1)
            elif op == "catt":
                # concat over the time axis (1-D) / the height axis (2-D); the axis may be given as a negative index
                nd = self.arch["nodes"][len(t) - 1]
                neg = nd["d"] < 0
                axis = (-1 if neg else 2) if self.arch["dim"] == 1 else (-2 if neg else 2)
                y = torch.cat([t[i] for i in ins], dim=axis)
            elif op == "sig":
                y = torch.sigmoid(t[ins[0]])
            elif op == "tanh":
                y = torch.tanh(t[ins[0]])
            elif op == "lsm":
                y = torch.nn.functional.log_softmax(t[ins[0]], dim=1)
            elif op == "gsq":
                y = self.layers[names[0]](t[ins[0]]).squeeze(self.arch["nodes"][len(t) - 1]["d"])
            elif op == "csq":
                y = t[ins[0]].squeeze(1)
            else:
                y = t[ins[0]]
                for nm in names:
                    y = self.layers[nm](y)
            t.append(y)
        return t[-1]


def input_shape(arch) -> tuple:
    return (arch["c0"],) + (arch["sp"],) * arch["dim"]


def positions(shape_rec) -> int:
    return shape_rec["sp"] * shape_rec["spw"]


def randomize(net: nn.Module, gen: torch.Generator) -> None:
    """Generic (non-degenerate) weights, biases and BN statistics: nothing is zero or one by accident."""
    with torch.no_grad():
        for m in net.modules():
            if isinstance(m, (nn.Conv1d, nn.Conv2d, nn.Linear)):
                m.weight.copy_((torch.rand(m.weight.shape, generator=gen, dtype=torch.float64) * 1.5 + 0.25) *
                               (torch.randint(0, 2, m.weight.shape, generator=gen) * 2 - 1))
                if m.bias is not None:
                    m.bias.copy_(torch.rand(m.bias.shape, generator=gen, dtype=torch.float64) * 0.8 + 0.3)
            elif isinstance(m, (nn.BatchNorm1d, nn.BatchNorm2d)):
                if m.affine:
                    m.weight.copy_(torch.rand(m.weight.shape, generator=gen, dtype=torch.float64) * 1.0 + 0.5)
                    m.bias.copy_(torch.rand(m.bias.shape, generator=gen, dtype=torch.float64) * 0.8 + 0.3)
                m.running_mean.copy_(torch.rand(m.running_mean.shape, generator=gen, dtype=torch.float64) - 0.5)
                m.running_var.copy_(torch.rand(m.running_var.shape, generator=gen, dtype=torch.float64) + 0.5)


def exclude_names(arch) -> List[str]:
    return ["layers." + lname(i) for i, n in enumerate(arch["nodes"], start=1)
            if n["op"] in ("conv", "lin") and n["excl"] and not n["reuse"]]
