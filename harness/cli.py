"""./check <PROPERTY> --tier quick|thorough [--seed N] [--replay PATH]"""
from __future__ import annotations

import argparse
import importlib
import os
import sys
import traceback

from .tlc import MachineryError


def main(argv=None) -> int:
    ap = argparse.ArgumentParser(prog="check")
    ap.add_argument("property")
    ap.add_argument("--tier", default=os.environ.get("VERIF_TIER", "quick"), choices=["quick", "thorough"])
    ap.add_argument("--seed", type=int, default=int(os.environ.get("VERIF_SEED", "0")))
    ap.add_argument("--replay", default=None)
    a = ap.parse_args(argv)
    pid = a.property.upper()
    try:
        mod = importlib.import_module(f"harness.checks.{pid.lower()}")
    except ModuleNotFoundError as e:
        print(f"no check for {pid}: {e}", file=sys.stderr)
        return 2
    try:
        return int(mod.run(a.tier, a.seed, a.replay))
    except MachineryError as e:
        print(f"MACHINERY-FAILURE property={pid}: {e}", file=sys.stderr)
        return 2
    except Exception:
        traceback.print_exc()
        print(f"MACHINERY-FAILURE property={pid}: unexpected exception in the harness", file=sys.stderr)
        return 2


if __name__ == "__main__":
    sys.exit(main())
