"""MPS scenarios for C02 / C05: build a real plinio MPS model from an abstract architecture (archgen.GrammarNet),
write a precision selection into the raw coefficients, and record what the library does with it.

Scenario (JSON):
  {"arch": <archgen arch, dim 2>, "cfg": {"pin": [..], "pa": [..], "pw": [..], "wt": "pl"|"pc"},
   "sel":  None | {"rep": {node: rep}, "inq": id, "a": {group: idx}, "w": {group: idx | [idx per channel]}}
                  (a state of MPSLifeMC: winners per quantiser GROUP of the specification; the harness writes them
                   through the quantiser object of every member of the group; 1-based indices into the tuples)
           None -> winners are drawn per real quantiser OBJECT from `seed`
   "mode": "eval" | "hard",  "temp": float, "gumbel": bool, "order": "fe" | "ef", "seed": int,
   "metrics": ["params_bit", "ops_bit", "mpic_latency", "ne16_latency"], "probe": bool, "export": bool}

Trace (one per scenario, validated by specs/MPSLifeTrace.tla), all numbers integers < 2^31:
  prop, arch, cfg, mode, temp_c, gumbel, order, build_ok/build_err (MPS(...) raised), conflict (two specification groups
  wrote different winners into one quantiser object), export_done/export_ok/export_err, bit_identical (torch.equal on 3
  batches, float32, 1 thread), y_varies, maxdiff_e6, metrics, cost {name: round(cost*100)}, cost_ok {name: evaluated and finite},
  probe (bool), L = one record per MPS module (n = architecture node, 0 = input quantiser; kind in|conv|lin|add):
     want_o / want_w   bits the harness wrote through THIS module's quantisers (w: one entry per output channel)
     am_i / am_w / am_o  projection: precision with the largest RAW coefficient of the module's in / weight / out quantiser
     su_*               summary();   ex_* / ex_type / ex_ok   precisions of the quantiser objects of the exported Quant* layer
     cand_i/w/o         candidate tuples of the three quantisers;  qid_*  identity classes of the quantiser objects
     pr_n, pr_in, pr_out (x1000), pr_foreign, pr_consistent   what the probing CostSpec was shown for this layer
  -9 = field does not exist for this kind of record, -1 = not quantised (DummyQuantizer).
The harness never decides a verdict: every comparison is made by TLC in MPSLifeTrace.
"""
from __future__ import annotations

import os
import random
from concurrent.futures import ProcessPoolExecutor
from typing import Any, Dict, List, Optional

from . import tlc
from .archgen import GrammarNet, input_shape, norm_arch, shapes

FLOAT = -1
NA = -9          # "field does not exist for this kind of record"
LIMIT = 2 ** 31 - 1


# ------------------------------------------------------------------ parallel execution
def _init_worker():
    import torch
    torch.set_num_threads(1)


def _run_one(sc):
    from .core import use_repo
    use_repo()
    try:
        return run(sc)
    except Exception:      # a crash of the harness itself: never a verdict, always a machinery failure
        import json
        import traceback
        raise tlc.MachineryError("harness crashed on scenario " + json.dumps(sc, default=str)[:3000] + "\n"
                                 + traceback.format_exc(limit=8)) from None


def _run_group(group):
    """Scenarios that share (arch, cfg, construction options, seed) reuse one MPS model."""
    from .core import use_repo
    use_repo()
    out = []
    cache: Dict[str, Any] = {}
    for sc in group:
        try:
            out.append(run(sc, cache))
        except Exception:
            import json
            import traceback
            raise tlc.MachineryError("harness crashed on scenario " + json.dumps(sc, default=str)[:3000] + "\n"
                                     + traceback.format_exc(limit=8)) from None
    return out


def build_key(sc) -> str:
    from .core import canon
    return canon([sc["arch"], sc["cfg"], sc.get("temp"), sc.get("gumbel"), sc.get("mode"), sc.get("hard_flag"),
                  sc.get("metrics"), sc.get("probe"), sc.get("full"), sc.get("batch"), sc.get("seed", 0) // 1000])


def run_scenarios(scs: List[Dict[str, Any]], procs: int = 0) -> List[Dict[str, Any]]:
    """Execute scenarios (grouped by model build) in a process pool; results in input order."""
    if not scs:
        return []
    groups: Dict[str, List[int]] = {}
    for i, sc in enumerate(scs):
        groups.setdefault(build_key(sc), []).append(i)
    glist = list(groups.values())
    procs = procs or min(8, max(1, (os.cpu_count() or 4) - 2))
    res: List[Any] = [None] * len(scs)
    if len(glist) < 4 or procs == 1:
        _init_worker()
        outs = [_run_group([scs[i] for i in g]) for g in glist]
    else:
        import multiprocessing as mp
        ctx = mp.get_context("fork")
        with ProcessPoolExecutor(max_workers=procs, mp_context=ctx, initializer=_init_worker) as ex:
            outs = list(ex.map(_run_group, [[scs[i] for i in g] for g in glist],
                               chunksize=max(1, len(glist) // (procs * 6))))
    for g, o in zip(glist, outs):
        for i, t in zip(g, o):
            res[i] = t
    return res


# ------------------------------------------------------------------ model construction
def _randomize(net, gen) -> None:
    """Generic weights scaled so that activations stay inside the quantisers' ranges (nothing degenerate)."""
    import torch
    import torch.nn as nn
    with torch.no_grad():
        for m in net.modules():
            if isinstance(m, (nn.Conv1d, nn.Conv2d, nn.Linear)):
                fan = m.weight[0].numel()
                w = (torch.rand(m.weight.shape, generator=gen) * 1.6 + 0.2) * (torch.randint(0, 2, m.weight.shape, generator=gen) * 2 - 1)
                m.weight.copy_(w * (1.4 / fan ** 0.5))
                if m.bias is not None:
                    m.bias.copy_(torch.rand(m.bias.shape, generator=gen) * 0.9 - 0.3)
            elif isinstance(m, (nn.BatchNorm1d, nn.BatchNorm2d)):
                m.weight.copy_(torch.rand(m.weight.shape, generator=gen) + 0.5)
                m.bias.copy_(torch.rand(m.bias.shape, generator=gen) * 0.8 - 0.2)
                m.running_mean.copy_(torch.rand(m.running_mean.shape, generator=gen) - 0.5)
                m.running_var.copy_(torch.rand(m.running_var.shape, generator=gen) + 0.5)


class Probe:
    """A cost specification that records what every cost function is shown and returns 1."""

    def __init__(self):
        import torch.nn as nn
        from plinio.cost import CostSpec
        from plinio.cost.pattern import conv_dw_constraint
        self.calls: List[Dict[str, Any]] = []
        self.by_weight: Dict[int, int] = {}        # id(weight parameter) -> node
        self.spec = CostSpec(shared=True, default_behavior="zero")
        self.spec[(nn.Conv2d, None)] = self._fn("conv")
        self.spec[(nn.Conv2d, conv_dw_constraint)] = self._fn("dw")
        self.spec[(nn.Linear, None)] = self._fn("lin")
        self.spec[(nn.Conv1d, None)] = self._fn("conv")
        self.spec[(nn.Conv1d, conv_dw_constraint)] = self._fn("dw")

    def _fn(self, pat):
        import torch

        def fn(spec):
            w = spec.get("_parameters", {}).get("weight")
            rec = {"pat": pat, "node": self.by_weight.get(id(w), -1), "keys": {}}
            for k in ("in_channels", "out_channels", "in_features", "out_features"):
                if k in spec:
                    rec["keys"][k] = float(spec[k])
            rec["in_precision"] = float(spec["in_precision"]) if "in_precision" in spec else None
            rec["w_precision"] = float(spec["w_precision"]) if "w_precision" in spec else None
            rec["theta"] = float(spec["w_theta_alpha"]) if "w_theta_alpha" in spec else None
            rec["has_shape"] = "output_shape" in spec
            self.calls.append(rec)
            return torch.tensor(1.0)
        return fn


def build(sc) -> Dict[str, Any]:
    import torch
    from plinio.methods import MPS
    from plinio.methods.mps import get_default_qinfo, MPSType
    from plinio.methods.mps.nn import MPSModule
    import plinio.cost as pc
    arch = norm_arch(sc["arch"])
    cfg = sc["cfg"]
    gen = torch.Generator().manual_seed(1000 + sc.get("seed", 0) // 1000)
    net = GrammarNet(arch)
    _randomize(net, gen)
    net.eval()
    qinfo = get_default_qinfo(w_precision=tuple(cfg["pw"]), a_precision=tuple(cfg["pa"]))
    qinfo["input_default"]["search_precision"] = tuple(cfg["pin"])
    probe = Probe() if sc.get("probe") else None
    cost = {m: getattr(pc, m) for m in sc.get("metrics", [])}
    if probe:
        cost["probe"] = probe.spec
    if not cost:
        cost = {"params_bit": pc.params_bit}
    from .archgen import exclude_names
    batch = int(sc.get("batch", 0))
    shape_kw = {"input_example": torch.rand((batch,) + input_shape(arch), generator=gen)} if batch else \
        {"input_shape": input_shape(arch)}
    m = MPS(net, cost=cost, **shape_kw,
            w_search_type=MPSType.PER_CHANNEL if cfg["wt"] == "pc" else MPSType.PER_LAYER,
            qinfo=qinfo, temperature=float(sc.get("temp", 1.0)), gumbel_softmax=bool(sc.get("gumbel", False)),
            hard_softmax=bool(sc.get("hard_flag", sc.get("mode") in ("hard", "ghard"))),
            exclude_names=exclude_names(arch), full_cost=bool(sc.get("full", False)))
    # map MPS modules to architecture nodes
    recs: Dict[int, Dict[str, Any]] = {}          # node -> {"name", "layer", "kind"}; node 0 = input quantiser
    add_nodes = [i for i, n in enumerate(arch["nodes"], start=1) if n["op"] == "add"]
    fx_adds = [n for n in m.seed.graph.nodes if n.op == "call_function" and "add" in str(n.target)]
    if len(fx_adds) != len(add_nodes):
        raise tlc.MachineryError("cannot align add nodes of the traced graph with the architecture")
    add_of_module = {}
    for fxn, an in zip(fx_adds, add_nodes):
        users = [u for u in fxn.users if u.op == "call_module"]
        if len(users) == 1:
            add_of_module[str(users[0].target)] = an
    for lname, _, layer in m._unique_leaf_modules:
        if not isinstance(layer, MPSModule):
            continue
        if lname.startswith("layers.n"):
            idx = int(lname[len("layers.n"):])
            recs[idx] = {"name": lname, "layer": layer, "kind": arch["nodes"][idx - 1]["op"]}
        elif lname.endswith("_input_quantizer"):
            recs[0] = {"name": lname, "layer": layer, "kind": "in"}
        elif lname in add_of_module:
            recs[add_of_module[lname]] = {"name": lname, "layer": layer, "kind": "add"}
        else:
            raise tlc.MachineryError(f"unexpected MPS module {lname}")
    if probe:
        for n, r in recs.items():
            w = getattr(r["layer"], "weight", None)
            if w is not None:
                probe.by_weight[id(w)] = n
    # generic clipping ranges for the activation quantisers (trained values are arbitrary positive numbers)
    with torch.no_grad():
        seen = set()
        for r in recs.values():
            q = r["layer"].out_mps_quantizer
            if id(q) in seen:
                continue
            seen.add(id(q))
            for f in q.qtz_funcs:
                if hasattr(f, "clip_val"):
                    f.clip_val.fill_(float(torch.rand((), generator=gen)) * 2.5 + (0.8 if r["kind"] != "in" else 0.7))
    return {"m": m, "recs": recs, "probe": probe, "arch": arch, "gen": gen}


# ------------------------------------------------------------------ selection
def _alpha_for(n: int, winner: int, rng: random.Random):
    """n raw coefficients, pairwise gaps >= 0.06, the largest at index `winner` (0-based); random sign / scale."""
    lv = rng.sample(range(0, 16), n)
    top = max(lv)
    i = lv.index(top)
    lv[i], lv[winner] = lv[winner], lv[i]
    # an EXACT tie for the maximum now and then (the same float twice): nothing is ambiguous then - torch.argmax, the
    # one-hot of the hard / eval-mode sampler, summary() and export() all take the FIRST maximum, so the tied copy is
    # placed behind the intended winner
    if winner < n - 1 and rng.random() < 0.12:
        lv[rng.randrange(winner + 1, n)] = lv[winner]
    scale = rng.choice([0.06, 0.06, 0.11, 0.5])
    off = rng.choice([0.0, -0.4, -3.0, 1.0])
    return [v * scale + off for v in lv]


def _write(q, winner, rng) -> None:
    """Write a winner (int, 0-based) or one winner per channel (list) into the raw coefficients of quantiser q."""
    import torch
    with torch.no_grad():
        n = q.alpha.shape[0]
        if q.alpha.dim() == 1:
            q.alpha.copy_(torch.tensor(_alpha_for(n, int(winner), rng), dtype=torch.float32))
        else:
            cols = [_alpha_for(n, int(w), rng) for w in winner]
            q.alpha.copy_(torch.tensor(cols, dtype=torch.float32).t())


def _argmax_bits(q) -> List[int]:
    """Projection: precision with the largest raw coefficient (per channel for per-channel quantisers)."""
    import torch
    a = q.alpha.detach()
    p = [int(x) for x in q.precision.tolist()]
    if a.dim() == 1:
        return [p[int(torch.argmax(a))]]
    return [p[int(i)] for i in torch.argmax(a, dim=0)]


def _as_list(v, n) -> List[int]:
    if isinstance(v, (list, tuple)):
        return [int(x) for x in v]
    return [int(v)] * n


def apply_selection(sc, B, rng) -> Dict[str, Any]:
    """Write the scenario's winners; returns per-node `want` (bits) and whether two groups collided on one object."""
    recs, arch, cfg = B["recs"], B["arch"], sc["cfg"]
    want: Dict[int, Dict[str, Any]] = {}
    written: Dict[int, Any] = {}
    conflict = False
    sel = sc.get("sel")
    sh = shapes(arch)
    for n in sorted(recs):
        r = recs[n]
        lay = r["layer"]
        # ---- activation (output) quantiser
        q = lay.out_mps_quantizer
        ncand = q.alpha.shape[0]
        if sel is not None:
            g = sel["inq"] if n == 0 else sel["rep"][str(n)]
            idx = sel["a"].get(str(g))
            w = None if idx is None else int(idx) - 1
        else:
            w = written.get(id(q), ("x", rng.randrange(ncand)))[1]
        if w is not None and w < ncand:
            if id(q) in written and written[id(q)][1] != w:
                conflict = True
            written[id(q)] = ("a", w)
            _write(q, w, rng)
        want[n] = {"o": NA, "w": []}
        # ---- weight quantiser
        if r["kind"] in ("conv", "lin"):
            qw = lay.w_mps_quantizer
            nc = qw.alpha.shape[0]
            ch = qw.alpha.shape[1] if qw.alpha.dim() == 2 else 0
            if sel is not None:
                g = sel["rep"][str(n)]
                ww = sel["w"][str(g)]
                ww = [int(x) - 1 for x in ww] if isinstance(ww, list) else int(ww) - 1
            elif id(qw) in written:
                ww = written[id(qw)][1]
            else:
                ww = [rng.randrange(nc) for _ in range(ch)] if ch else rng.randrange(nc)
            ok = all(x < nc for x in ww) and len(ww) == ch if isinstance(ww, list) else (ww < nc and ch == 0)
            if ok:
                if id(qw) in written and written[id(qw)][1] != ww:
                    conflict = True
                written[id(qw)] = ("w", ww)
                _write(qw, ww, rng)
            else:
                conflict = True
    _fill_want(want, written, recs, sh)
    return {"want": want, "conflict": conflict, "written": written}


def _fill_want(want, written, recs, sh) -> None:
    """The intended bits per node, read back from what was last written through THAT node's quantisers."""
    for n in sorted(recs):
        lay = recs[n]["layer"]
        q = lay.out_mps_quantizer
        p = [int(x) for x in q.precision.tolist()]
        wa = written.get(id(q))
        want.setdefault(n, {"o": NA, "w": []})
        want[n]["o"] = p[wa[1]] if wa is not None else p[0]
        if recs[n]["kind"] in ("conv", "lin"):
            qw = lay.w_mps_quantizer
            pw = [int(x) for x in qw.precision.tolist()]
            ww = written.get(id(qw))
            cout = sh[n]["ch"]
            if ww is None:
                want[n]["w"] = []
            elif isinstance(ww[1], list):
                want[n]["w"] = [pw[i] for i in ww[1]]
            else:
                want[n]["w"] = [pw[ww[1]]] * cout


def load_new_alphas(B, written, rng, how: str = "load") -> None:
    """History actions `load` / `copy` / `data`: draw a NEW winner for every quantiser object and install the coefficients
    with load_state_dict / in-place copy_ / .data assignment (no forward pass, no mode switch): theta_alpha keeps encoding
    the previously sampled assignment."""
    import torch
    m, recs = B["m"], B["recs"]
    new: Dict[int, Any] = {}
    for n in sorted(recs):
        lay = recs[n]["layer"]
        qs = [("a", lay.out_mps_quantizer)]
        if recs[n]["kind"] in ("conv", "lin"):
            qs.append(("w", lay.w_mps_quantizer))
        for kind, q in qs:
            if id(q) in new:
                continue
            nc = q.alpha.shape[0]
            if q.alpha.dim() == 1:
                old = written.get(id(q), (kind, 0))[1]
                w = rng.randrange(nc)
                if nc > 1 and w == old:
                    w = (w + 1) % nc
                new[id(q)] = (kind, w, torch.tensor(_alpha_for(nc, w, rng), dtype=torch.float32))
            else:
                w = [rng.randrange(nc) for _ in range(q.alpha.shape[1])]
                new[id(q)] = (kind, w, torch.tensor([_alpha_for(nc, x, rng) for x in w], dtype=torch.float32).t())
    if how == "load":
        sd = m.state_dict()
        for key in list(sd):
            if key.endswith(".alpha"):
                q = m.get_submodule(key[:-len(".alpha")])
                if id(q) in new:
                    sd[key] = new[id(q)][2].clone()
        m.load_state_dict(sd)
    else:
        done = set()
        for n in sorted(recs):
            lay = recs[n]["layer"]
            for q in [lay.out_mps_quantizer] + ([lay.w_mps_quantizer] if recs[n]["kind"] in ("conv", "lin") else []):
                if id(q) in new and id(q) not in done:
                    done.add(id(q))
                    if how == "copy":
                        with torch.no_grad():
                            q.alpha.copy_(new[id(q)][2])
                    else:
                        q.alpha.data = new[id(q)][2].clone()
    for k, (kind, w, _) in new.items():
        written[k] = (kind, w)


def _theta_bits(q):
    """Projection of the SAMPLED coefficients: precision at the largest theta (per channel), and whether theta is
    one-hot (every entry within 2e-6 of 0 / 1: hard Gumbel computes 1 - y + y in float32)."""
    import torch
    th = q.theta_alpha.detach()
    p = [int(x) for x in q.precision.tolist()]
    idx = torch.argmax(th, dim=0)
    hot = torch.zeros_like(th)
    if th.dim() == 1:
        hot[int(idx)] = 1.0
        bits = [p[int(idx)]]
    else:
        hot.scatter_(0, idx.unsqueeze(0), 1.0)
        bits = [p[int(i)] for i in idx]
    return bits, bool((th - hot).abs().max() <= 2e-6)



# ------------------------------------------------------------------ one scenario
def _centi(x: float):
    """(round(100 x), representable): a cost that is not finite or does not fit 32 bits (x100) is NOT an error of the
    harness - it is reported to the trace spec (clause C05.cost ... not representable)."""
    if x != x or abs(x) == float("inf") or abs(x) * 100 >= LIMIT:
        return 0, False
    return int(round(x * 100)), True


def _fingerprint(m, recs) -> Dict[str, str]:
    """State of the MODEL that a cost evaluation must not touch: every tensor of state_dict() (parameters, theta_alpha,
    temperature, the constants / masks registered by the features calculators, quantiser ranges), the value the input
    features calculator of every layer reports, and the plain hyper-parameter attributes of every layer."""
    import hashlib
    import torch
    fp: Dict[str, str] = {}
    for k, v in m.state_dict().items():
        tv = v.detach().contiguous().cpu()
        fp["state_dict:" + k] = hashlib.sha1(tv.numpy().tobytes()).hexdigest() + str(tuple(tv.shape)) + str(tv.dtype)
    for n, r in recs.items():
        lay = r["layer"]
        try:
            f = lay.input_features_calculator.features
            fp[f"features_calculator:{r['name']}"] = repr(f.detach().cpu().tolist() if isinstance(f, torch.Tensor) else f)
        except Exception as e:      # pragma: no cover - reported as a changed key
            fp[f"features_calculator:{r['name']}"] = "raised " + type(e).__name__
        for a_ in ("in_channels", "out_channels", "in_features", "out_features", "kernel_size", "stride", "padding", "dilation",
                   "groups", "padding_mode", "training"):
            if hasattr(lay, a_):
                fp[f"attr:{r['name']}.{a_}"] = repr(getattr(lay, a_))
    return fp


def _first_diff(a: Dict[str, str], b: Dict[str, str]) -> str:
    for k in sorted(set(a) | set(b)):
        if a.get(k) != b.get(k):
            return k
    return ""


def run(sc: Dict[str, Any], cache: Optional[Dict[str, Any]] = None) -> Dict[str, Any]:
    import torch
    from plinio.methods.mps.quant.nn import QuantConv1d, QuantConv2d, QuantLinear, QuantIdentity, QuantList
    key = build_key(sc)
    fresh_model = True
    if cache is not None and cache.get("key") == key:
        B = cache["B"]
        fresh_model = False
    else:
        try:
            B = build(sc)
        except tlc.MachineryError:
            raise
        except Exception as e:      # the library refused / crashed on the architecture: decided by the trace spec
            B = {"err": f"{type(e).__name__}: {e}"[:240]}
        if cache is not None:
            cache["key"], cache["B"] = key, B
    if "err" in B:
        return {"prop": sc.get("prop", "C02"), "arch": norm_arch(sc["arch"]), "cfg": sc["cfg"], "build_ok": False,
                "build_err": B["err"], "L": [], "metrics": [], "cost": {}, "cost_ok": {}, "probe": False, "conflict": False,
                "export_done": False, "export_ok": False, "export_err": "", "bit_identical": False, "y_varies": False,
                "maxdiff_e6": 0, "mode": sc.get("mode", "eval"), "hist": [], "hist_err": "", "hist_err_pos": 0, "hist_err_act": "", "hist_err_type": "", "cost2": {}, "cost2_ok": {}, "cost_rep": {}, "cost2_rep": {}, "frame_changed": "", "frame_keys": 0, "fresh_model": True, "exports": [], "batch": int(sc.get("batch", 0)),
                "full": bool(sc.get("full", False))}
    m, recs, arch, probe = B["m"], B["recs"], B["arch"], B["probe"]
    rng = random.Random(sc.get("seed", 0) * 7919 + 13)
    m.eval()                            # every history starts in eval mode (a cached model may have been left in training mode)
    if not fresh_model:                 # ... and without autograd history of the previous scenario in its buffers / attributes:
        with torch.no_grad():           # one eval forward under no_grad through the public API (theta is then an old one-hot:
            m(torch.rand((1,) + input_shape(arch)))     # nothing is claimed about it, see ThetaState "soft")
    S = apply_selection(sc, B, rng)
    want = S["want"]
    sh = shapes(arch)
    gen = torch.Generator().manual_seed(sc.get("seed", 0) + 5)
    xs = [torch.rand((3,) + input_shape(arch), generator=gen) * 1.5 - 0.2 for _ in range(2)]
    xs.append(torch.rand((2,) + input_shape(arch), generator=gen) * 6.0 - 2.0)       # also outside the input range
    t: Dict[str, Any] = {"arch": arch, "cfg": sc["cfg"], "mode": sc.get("mode", "eval"), "build_ok": True, "build_err": "",
                         "temp_c": int(round(float(sc.get("temp", 1.0)) * 100)), "gumbel": bool(sc.get("gumbel", False)),
                         "order": sc.get("order", "fe"), "conflict": S["conflict"]}
    do_export = bool(sc.get("export", sc["cfg"]["wt"] == "pl"))
    exported = None
    err = ""
    mode = t["mode"]
    hist = sc.get("hist")
    if hist is None:        # default: export before / after ONE forward pass in the scenario's mode
        fw = "fwd_" + mode
        hist = (["export!", fw] if t["order"] == "ef" else [fw, "export!"]) if do_export else [fw]
    if sc["cfg"]["wt"] == "pc":         # the per-channel exporter (QuantList) is outside C02 / C05: not called in histories
        hist = ["summary" if a == "export" else a for a in hist]
    t["hist"] = list(hist)
    t["fresh_model"] = fresh_model
    hist_err = ""

    exports: List[Dict[str, Any]] = []
    wver = 0

    def fwd(grad: bool):
        if grad:
            with torch.enable_grad():
                for x in xs:
                    m(x)
        else:
            with torch.no_grad():
                for x in xs:
                    m(x)

    def export_now():
        """export() compared with the eval-mode model AT THIS MOMENT: the model is evaluated BEFORE export() is called (a model
        that already is in eval mode is not switched: an eval()/train() call - also the one inside export() - may reset
        inference-time state) and again afterwards; the exported module must reproduce both."""
        nonlocal exported, err
        # what summary() reports and what the raw coefficients select AT THIS MOMENT, read before anything is forwarded
        try:
            s0 = m.summary()
        except Exception:
            s0 = {}
        trip = []
        for n_ in sorted(recs):
            r_ = recs[n_]
            lay_ = r_["layer"]
            il_ = r_["kind"] in ("conv", "lin")
            co_ = sh[n_]["ch"]
            d_ = {"n": n_, "su_i": NA, "su_w": [], "su_o": NA, "am_i": NA, "am_w": [], "am_o": _argmax_bits(lay_.out_mps_quantizer)[0],
                  "ex_i": NA, "ex_w": [], "ex_o": NA}
            if il_:
                d_["am_i"] = _argmax_bits(lay_.in_mps_quantizer)[0]
                aw_ = _argmax_bits(lay_.w_mps_quantizer)
                d_["am_w"] = aw_ * co_ if lay_.w_mps_quantizer.alpha.dim() == 1 else aw_
            e_ = s0.get(r_["name"])
            if e_ is not None:
                try:
                    d_["su_o"] = int(e_["out_precision"])
                    if il_:
                        d_["su_i"] = int(e_["in_precision"])
                        d_["su_w"] = _as_list(e_["w_precision"], co_)
                except (KeyError, TypeError, ValueError):
                    pass
            trip.append(d_)
        was_training = m.training
        if was_training:
            m.eval()
        cmp_x = xs[1:] + [torch.rand((5,) + input_shape(arch), generator=gen) * 1.4 - 0.2]   # batch sizes 3, 2, 5
        with torch.no_grad():
            y_before = [m(x) for x in cmp_x]
        try:
            exported = m.export()
            exported.eval()
        except Exception as e:          # export must not fail on a supported network: reported by the trace spec
            exported = None
            err = f"{type(e).__name__}: {e}"[:200]
            exports.append({"ok": False, "bit": False, "diff": 0, "wcur": False, "wver": wver, "T": trip})
            if was_training:
                m.train()
            return
        if m.training:
            m.eval()
        bit, diff = True, 0.0
        with torch.no_grad():
            for x, yb in zip(cmp_x, y_before):
                ya, ye = m(x), exported(x)
                for a_ in (yb, ya):
                    if a_.shape != ye.shape or not torch.equal(a_, ye):
                        bit = False
                        if a_.shape == ye.shape:
                            diff = max(diff, float((a_ - ye).abs().max()))
        if was_training:
            m.train()
        wcur = True
        exm = dict(exported.named_modules())
        for n_, r_ in recs.items():
            if r_["kind"] in ("conv", "lin"):
                e_ = exm.get(r_["name"])
                if e_ is None or not hasattr(e_, "weight") or e_.weight.shape != r_["layer"].weight.shape \
                        or not torch.equal(e_.weight, r_["layer"].weight) \
                        or ((e_.bias is None) != (r_["layer"].bias is None)) \
                        or (e_.bias is not None and not torch.equal(e_.bias, r_["layer"].bias)):
                    wcur = False
        for d_ in trip:                     # the precisions of the quantiser objects of the exported layers
            e_ = exm.get(recs[d_["n"]]["name"])
            try:
                if hasattr(e_, "in_quantizer"):
                    d_["ex_i"] = int(e_.in_quantizer.precision)
                    d_["ex_w"] = [int(e_.w_quantizer.precision)] * sh[d_["n"]]["ch"]
                if hasattr(e_, "out_quantizer"):
                    d_["ex_o"] = int(e_.out_quantizer.precision)
            except (AttributeError, TypeError, ValueError):
                pass
        exports.append({"ok": True, "bit": bool(bit), "diff": int(min(diff * 1e6, 2e9)), "wcur": bool(wcur), "wver": wver, "T": trip})

    def sgd(all_params: bool):
        """One SGD step in hard-sampling training mode (autograd on): on the network weights only / on all parameters."""
        nonlocal wver
        m.update_softmax_options(hard=True, gumbel=False)
        m.train()
        params = list(m.parameters()) if all_params else list(m.net_parameters())
        nas = {id(p) for p in m.nas_parameters()}
        for p in m.parameters():
            p.grad = None
        opt = torch.optim.SGD([{"params": [p for p in params if id(p) not in nas], "lr": 0.05},
                               {"params": [p for p in params if id(p) in nas], "lr": 0.002}])
        before = [r_["layer"].weight.detach().clone() for r_ in recs.values() if r_["kind"] in ("conv", "lin")]
        with torch.enable_grad():
            out = m(xs[0])
            loss = (out - 0.3).square().mean()
            loss.backward()
        # bounded step: generic weights stay generic (an exploding step would fill the model with inf / nan, on which
        # "equal" means nothing)
        torch.nn.utils.clip_grad_norm_([p for p in params if p.grad is not None], 1.0)
        for p in params:
            if p.grad is not None and not bool(torch.isfinite(p.grad).all()):
                p.grad = torch.zeros_like(p.grad)
        opt.step()
        if not all(bool(torch.isfinite(p).all()) for p in m.parameters()):
            raise tlc.MachineryError("SGD step of the harness produced non-finite parameters")
        for p in m.parameters():
            p.grad = None
        after = [r_["layer"].weight.detach() for r_ in recs.values() if r_["kind"] in ("conv", "lin")]
        wver += 1               # number of SGD steps (a step whose gradients vanish leaves the weights as they are)
        if all_params:          # the coefficients moved: what the quantisers hold now is read back
            for n_ in recs:
                lay_ = recs[n_]["layer"]
                for kind_, q_ in [("a", lay_.out_mps_quantizer)] + ([("w", lay_.w_mps_quantizer)] if recs[n_]["kind"] in ("conv", "lin") else []):
                    a_ = q_.alpha.detach()
                    S["written"][id(q_)] = (kind_, int(torch.argmax(a_)) if a_.dim() == 1 else [int(i) for i in torch.argmax(a_, dim=0)])
            _fill_want(want, S["written"], recs, sh)

    def fork():
        """obj := deepcopy(obj); the ORIGINAL is then perturbed (other coefficients, other sampler options / temperature,
        forward passes in eval and in training mode); the history continues on the COPY."""
        nonlocal m, recs, B
        import copy as _copy
        m2 = _copy.deepcopy(m)
        mods2 = dict(m2.seed.named_modules())
        recs2 = {n_: {"name": r_["name"], "layer": mods2[r_["name"]], "kind": r_["kind"]} for n_, r_ in recs.items()}
        w2 = {}
        for n_, r_ in recs.items():
            for attr in ("out_mps_quantizer", "w_mps_quantizer"):
                q_, q2_ = getattr(r_["layer"], attr, None), getattr(recs2[n_]["layer"], attr, None)
                if q_ is not None and id(q_) in S["written"]:
                    w2[id(q2_)] = S["written"][id(q_)]
        if probe:
            for n_, r_ in recs2.items():
                w_ = getattr(r_["layer"], "weight", None)
                if w_ is not None:
                    probe.by_weight[id(w_)] = n_
        # ---- perturb the original
        was_training = m.training
        load_new_alphas(B, dict(S["written"]), rng, "copy")
        m.update_softmax_options(temperature=round(0.05 * (400.0 ** rng.random()), 3), hard=True, gumbel=rng.random() < 0.5)
        with torch.no_grad():
            m.eval()
            m(xs[0])
            m.train()
            m(xs[1])
        m.train(was_training)
        # ---- continue on the copy
        B = dict(B, m=m2, recs=recs2)
        m, recs = m2, recs2
        S["written"] = w2
        if cache is not None:
            cache.pop("key", None)          # the cached model was perturbed: the next scenario builds a new one

    def load_temperature():
        sd = m.state_dict()
        new_t = round(0.05 * (400.0 ** rng.random()), 3)
        for key in list(sd):
            if key.endswith(".temperature"):
                sd[key] = torch.tensor(new_t, dtype=sd[key].dtype)
        m.load_state_dict(sd)

    def do(act):
        if act == "fork":
            fork()
            return
        if act == "loadT":
            load_temperature()
            return
        if act in ("fwd_eval", "to_eval"):
            m.eval()
        elif act in ("fwd_hard", "to_hard"):
            m.update_softmax_options(hard=True, gumbel=False)
            m.train()
        elif act in ("fwd_ghard", "to_ghard"):
            m.update_softmax_options(hard=True, gumbel=True)
            m.train()
        if act in ("fwd_eval", "fwd_hard", "fwd_ghard", "fwd_n"):
            fwd(False)
        elif act == "fwd_g":
            fwd(True)
        elif act in ("to_eval", "to_hard", "to_ghard"):
            pass
        elif act == "export!":
            export_now()
        elif act == "export":
            m.export()
        elif act == "summary":
            m.summary()
        elif act == "upd":
            m.update_softmax_options(temperature=round(0.05 * (400.0 ** rng.random()), 3))
        elif act in ("load", "copy", "data"):
            load_new_alphas(B, S["written"], rng, act)
            _fill_want(want, S["written"], recs, sh)
        elif act == "sgd_net":
            sgd(False)
        elif act == "sgd_all":
            sgd(True)
        else:
            raise tlc.MachineryError(f"unknown history action {act}")

    torch.manual_seed(sc.get("seed", 0) + 11)          # Gumbel noise is drawn from the global generator
    for act in hist:
        try:
            do(act)
        except tlc.MachineryError:
            raise
        except Exception as e:          # a public call of the history raised: reported by the trace spec
            hist_err = f"{act}: {type(e).__name__}: {e}"[:200]
            t["hist_err_pos"] = len(t.get("_done", [])) + 1
            t["hist_err_act"], t["hist_err_type"] = act, type(e).__name__
            break
        t.setdefault("_done", []).append(act)
    t.pop("_done", None)
    t.setdefault("hist_err_pos", 0)
    t.setdefault("hist_err_act", "")
    t.setdefault("hist_err_type", "")
    t["hist_err"] = hist_err
    # ---- costs (in the state the history left) read in the given order, then again in the reverse order
    def read(names):
        out, ok, rep = {}, {}, {}
        for name in names:
            try:
                c = float(m.get_cost(name))
                out[name], rep[name] = _centi(c)
                ok[name] = True
            except tlc.MachineryError:
                raise
            except Exception:           # get_cost raised: reported to the trace spec (required only where the metric is defined)
                out[name], ok[name], rep[name] = 0, False, False
        return out, ok, rep

    names = list(sc.get("metrics", []))
    fp0 = _fingerprint(m, recs)
    t["cost"], t["cost_ok"], t["cost_rep"] = read(names)
    fp1 = _fingerprint(m, recs)
    t["cost2"], t["cost2_ok"], t["cost2_rep"] = read(list(reversed(names)))
    fp2 = _fingerprint(m, recs)
    t["metrics"] = names
    t["full"] = bool(sc.get("full", False))
    # ---- the assignment the sampled coefficients encode at the moment the cost was read
    theta = {}
    for n in sorted(recs):
        lay = recs[n]["layer"]
        d = {"o": _theta_bits(lay.out_mps_quantizer)}
        if recs[n]["kind"] in ("conv", "lin"):
            d["i"] = _theta_bits(lay.in_mps_quantizer)
            d["w"] = _theta_bits(lay.w_mps_quantizer)
        theta[n] = d
    shown = {}
    if probe:
        probe.calls.clear()
        try:
            m.get_cost("probe")
        except Exception as e:
            t["probe_err"] = f"{type(e).__name__}: {e}"[:200]
        for c in probe.calls:
            shown.setdefault(c["node"], []).append(c)
    fp3 = _fingerprint(m, recs)
    t["frame_changed"] = _first_diff(fp0, fp1) or _first_diff(fp1, fp2) or _first_diff(fp2, fp3)
    t["frame_keys"] = len(fp0)
    # ---- bit-identity: every compared export of the history (eval mode, float32, one thread)
    bit_identical = all(e["bit"] for e in exports) if exports else True
    maxdiff = max([e["diff"] for e in exports] or [0]) / 1e6
    y_varies = False
    if exported is not None:
        was_training = m.training
        if was_training:
            m.eval()
        with torch.no_grad():
            yev = [m(x) for x in xs]
        if was_training:
            m.train()
        y_varies = bool(yev[0].std() > 0) and all(bool(torch.isfinite(v).all()) for v in yev)
    t["exports"] = exports
    t["batch"] = int(sc.get("batch", 0))
    t["export_done"] = do_export
    t["export_ok"] = exported is not None
    t["export_err"] = err
    t["bit_identical"] = bool(bit_identical)
    t["y_varies"] = bool(y_varies)
    t["maxdiff_e6"] = int(min(maxdiff * 1e6, 2e9))
    # ---- per quantisation point: intended / arg-max / summary / exported precisions, object identities
    summ = m.summary()
    exmods = dict(exported.named_modules()) if exported is not None else {}
    qids: Dict[int, int] = {}

    def qid(o):
        return qids.setdefault(id(o), len(qids) + 1)

    L = []
    for n in sorted(recs):
        r = recs[n]
        lay = r["layer"]
        cout = sh[n]["ch"]
        is_layer = r["kind"] in ("conv", "lin")
        rec = {"n": n, "kind": r["kind"], "dw": bool(is_layer and arch["nodes"][n - 1]["dw"]),
               "want_o": want[n]["o"], "want_w": want[n]["w"],
               "am_o": _argmax_bits(lay.out_mps_quantizer)[0], "qid_o": qid(lay.out_mps_quantizer),
               "am_i": NA, "am_w": [], "qid_i": 0, "qid_w": 0,
               "cand_o": [int(x) for x in lay.out_mps_quantizer.precision.tolist()], "cand_i": [], "cand_w": [],
               "su_i": NA, "su_o": NA, "su_w": [], "su_ok": False,
               "ex_i": NA, "ex_o": NA, "ex_w": [], "ex_ok": False, "ex_type": "",
               "ex_k": NA, "ex_s": NA, "ex_d": NA, "ex_pm": "", "ex_bias": False,
               "th_o": theta[n]["o"][0][0], "th_i": NA, "th_w": [], "th_hot": theta[n]["o"][1]}
        if is_layer:
            rec["am_i"] = _argmax_bits(lay.in_mps_quantizer)[0]
            rec["qid_i"] = qid(lay.in_mps_quantizer)
            rec["cand_i"] = [int(x) for x in lay.in_mps_quantizer.precision.tolist()]
            rec["cand_w"] = [int(x) for x in lay.w_mps_quantizer.precision.tolist()]
            aw = _argmax_bits(lay.w_mps_quantizer)
            rec["am_w"] = aw * cout if lay.w_mps_quantizer.alpha.dim() == 1 else aw
            rec["qid_w"] = qid(lay.w_mps_quantizer)
            rec["th_i"] = theta[n]["i"][0][0]
            tw = theta[n]["w"][0]
            rec["th_w"] = tw * cout if lay.w_mps_quantizer.alpha.dim() == 1 else tw
            rec["th_hot"] = bool(theta[n]["o"][1] and theta[n]["i"][1] and theta[n]["w"][1])
        s = summ.get(r["name"])
        if s is not None:
            try:
                rec["su_o"] = int(s["out_precision"])
                if is_layer:
                    rec["su_i"] = int(s["in_precision"])
                    rec["su_w"] = _as_list(s["w_precision"], cout)
                rec["su_ok"] = True
            except (KeyError, TypeError, ValueError):
                pass
        e = exmods.get(r["name"])
        if e is not None:
            rec["ex_type"] = type(e).__name__
            try:
                if isinstance(e, QuantIdentity):
                    rec["ex_o"] = int(e.out_quantizer.precision)
                    rec["ex_ok"] = not is_layer
                elif isinstance(e, (QuantConv1d, QuantConv2d, QuantLinear)):
                    rec["ex_i"] = int(e.in_quantizer.precision)
                    rec["ex_o"] = int(e.out_quantizer.precision)
                    rec["ex_w"] = [int(e.w_quantizer.precision)] * cout
                    geom_ok = (e.weight.shape == lay.weight.shape) and ((e.bias is None) == (lay.bias is None))
                    rec["ex_bias"] = e.bias is not None
                    if isinstance(e, QuantLinear):
                        rec["ex_k"], rec["ex_s"], rec["ex_d"], rec["ex_pm"] = 1, 1, 1, "zeros"
                    else:
                        rec["ex_k"], rec["ex_s"], rec["ex_d"] = int(e.kernel_size[0]), int(e.stride[0]), int(e.dilation[0])
                        rec["ex_pm"] = str(e.padding_mode)
                        pad = e.padding if isinstance(e.padding, str) else int(e.padding[0])
                        nd_ = arch["nodes"][n - 1]
                        want_pad = 0 if (nd_["causal"] or nd_["valid"]) else ("same" if arch["dim"] == 1 else nd_["d"] * (nd_["k"] // 2))
                        geom_ok = geom_ok and pad == want_pad and int(e.groups) == int(lay.groups)
                    rec["ex_ok"] = bool(is_layer and geom_ok)
                elif isinstance(e, QuantList):
                    rec["ex_ok"] = False
            except (AttributeError, TypeError, ValueError):
                rec["ex_ok"] = False
        # ---- what the cost functions of this layer were shown (probe), for the selected precisions
        rec["pr_n"] = 0
        rec["pr_in"] = rec["pr_out"] = NA
        rec["pr_foreign"] = False
        rec["pr_consistent"] = True
        if is_layer and probe:
            calls = shown.get(n, [])
            rec["pr_n"] = len(calls)
            own = ("in_features", "out_features") if r["kind"] == "lin" else ("in_channels", "out_channels")
            other = ("in_channels", "out_channels") if r["kind"] == "lin" else ("in_features", "out_features")
            vals = set()
            for c in calls:
                if own[0] in c["keys"] and own[1] in c["keys"]:
                    vals.add((round(c["keys"][own[0]] * 1000), round(c["keys"][own[1]] * 1000)))
                else:
                    rec["pr_consistent"] = False
                if any(k in c["keys"] for k in other):
                    rec["pr_foreign"] = True
            if len(vals) == 1:
                rec["pr_in"], rec["pr_out"] = [int(max(min(v, LIMIT - 1), 1 - LIMIT)) for v in vals.pop()]
            elif len(vals) > 1:
                rec["pr_consistent"] = False
        L.append(rec)
    t["L"] = L
    t["probe"] = bool(probe)
    t["prop"] = sc.get("prop", "C02")
    t["n_exported_quant"] = sum(1 for k, v in exmods.items()
                                if isinstance(v, (QuantConv1d, QuantConv2d, QuantLinear, QuantIdentity, QuantList)))
    return t


# ------------------------------------------------------------------ scenario sources
def scenario_from_state(st: Dict[str, Any], **opts) -> Dict[str, Any]:
    """A 'sel' state of MPSLifeMC (parsed TLC dump) -> scenario."""
    from .pitgen import arch_from_tla, fun_items
    arch = arch_from_tla(st["arch"])
    n = len(arch["nodes"])
    rep = {str(k if isinstance(st["gs"]["rep"], dict) else k - 1): int(v) for k, v in fun_items(st["gs"]["rep"])}
    # gs.rep has domain 0..N+1: TLC prints it as a function (0 :> .. @@ ..), parsed as dict
    sel_a = {str(k): int(v) for k, v in fun_items(st["sel"]["a"])}
    sel_w = {}
    for k, v in fun_items(st["sel"]["w"]):
        sel_w[str(k)] = [int(x) for _, x in sorted(fun_items(v))] if isinstance(v, (list, dict)) else int(v)
    sc = {"arch": arch,
          "cfg": {"pin": list(st["cfg"]["pin"]), "pa": list(st["cfg"]["pa"]), "pw": list(st["cfg"]["pw"]), "wt": st["cfg"]["wt"]},
          "sel": {"rep": rep, "inq": n + 2, "a": sel_a, "w": sel_w}}
    if st.get("hist"):
        sc["hist"] = list(st["hist"])
    sc.update(opts)
    if sc.get("prop") == "C02" and sc.get("hist") is not None:      # every export of the history is compared; one at the end
        sc["hist"] = ["export!" if a == "export" else a for a in sc["hist"]]
        if not sc["hist"] or sc["hist"][-1] != "export!":
            sc["hist"].append("export!")
    return sc


def random_mps_arch(rng: random.Random, max_nodes: int = 9, dim: int = 2, reuse: bool = False) -> Dict[str, Any]:
    """Seeded random architecture over the C02 grammar (wider / deeper than the exhaustive configs); dim 1: causal or
    'same'-padded Conv1d with dilation, no BatchNorm after a conv (MPS folds Conv2d-BN and Linear-BN only);
    reuse: contains a weight-shared residual block  h' = B(h) + h ; h'' = B(h') + h'  (one layer object, two call sites)."""
    c0 = rng.choice([1, 2, 3])
    sp = rng.choice([4, 6]) if dim == 2 else rng.choice([6, 8, 12])
    nodes: List[Dict[str, Any]] = []
    target = rng.randint(3, max_nodes)
    done_reuse = not reuse
    for _ in range(100):
        if len(nodes) >= target and done_reuse:
            break
        a = norm_arch({"dim": dim, "c0": c0, "sp": sp, "nodes": nodes})
        sh = shapes(a)
        T = list(range(len(sh)))
        nf = [t for t in T if not sh[t]["flat"]]
        fl = [t for t in T if sh[t]["flat"]]
        used = {p for nd in nodes for p in nd["ins"]}
        fresh = [t for t in T if t not in used]
        pick = lambda cand: rng.choice([t for t in cand if t in fresh] or cand)
        kind = rng.choices(["conv", "dw", "lin", "relu", "pool", "flat", "add", "reuse"],
                           weights=[6, 2, 4 if fl else 0, 3, 1, 1.2 if len(nf) > 1 else 0, 3, 0 if done_reuse else 5])[0]
        if kind == "conv" and nf:
            causal = dim == 1 and rng.random() < 0.6
            p_ = pick(nf)
            k_ = rng.choice([1, 3]) if dim == 2 else rng.choice([1, 2, 3, 5])
            d_ = rng.choice([1, 1, 2])
            nd_ = {"op": "conv", "ins": [p_], "out": rng.choice([2, 3, 4, 5]), "k": k_, "d": d_, "causal": causal,
                   "s": rng.choice([1, 1, 1, 2]) if (dim == 2 or causal) else 1, "bias": rng.random() < 0.7,
                   "bn": dim == 2 and rng.random() < 0.4}
            pad_ = d_ * (k_ // 2) if dim == 2 else (d_ * (k_ - 1) + 1) // 2
            if not causal and sh[p_]["sp"] > pad_ >= 1 and rng.random() < 0.5:
                nd_["pm"] = rng.choice(["reflect", "replicate", "circular"])       # needs an input larger than the padding
            elif not causal and sh[p_]["sp"] - d_ * (k_ - 1) >= 2 and rng.random() < 0.12:
                nd_["valid"] = True
                nd_["s"] = 1
            nodes.append(nd_)
        elif kind == "dw" and nf:
            causal = dim == 1 and rng.random() < 0.6
            p_ = pick(nf)
            nd_ = {"op": "conv", "ins": [p_], "dw": True, "k": 3, "bias": rng.random() < 0.7, "causal": causal,
                   "bn": dim == 2 and rng.random() < 0.3}
            if not causal and sh[p_]["sp"] > 1 and rng.random() < 0.4:
                nd_["pm"] = rng.choice(["reflect", "replicate", "circular"])
            nodes.append(nd_)
        elif kind == "lin" and fl:
            nodes.append({"op": "lin", "ins": [pick(fl)], "out": rng.choice([2, 3, 4, 6]), "bias": rng.random() < 0.7,
                          "bn": rng.random() < 0.3})
        elif kind == "reuse":
            def quantised_by_layer(t):      # the tensor was (re-)quantised by a conv / lin / add, not only by the input quantiser
                while t != 0 and nodes[t - 1]["op"] not in ("conv", "lin", "add"):
                    t = nodes[t - 1]["ins"][0]
                return t != 0
            c = [t for t in nf if t != 0 and sh[t]["ch"] <= 5 and quantised_by_layer(t)]
            if c:
                h = pick(c)
                b = len(nodes) + 1
                blk = {"op": "conv", "ins": [h], "out": sh[h]["ch"], "k": rng.choice([1, 3]), "d": 1, "s": 1,
                       "bias": rng.random() < 0.7, "bn": False, "causal": dim == 1}
                nodes.append(dict(blk))
                nodes.append({"op": "add", "ins": [b, h] if rng.random() < 0.5 else [h, b]})
                blk2 = dict(blk)
                blk2.update({"ins": [b + 1], "reuse": b})
                nodes.append(blk2)
                nodes.append({"op": "add", "ins": [b + 2, b + 1]})
                done_reuse = True
        elif kind == "relu" and len(T) > 1:
            nodes.append({"op": "relu", "ins": [pick(T[1:])]})
        elif kind == "pool":
            c = [t for t in nf if t != 0 and sh[t]["sp"] >= 2]
            if c:
                nodes.append({"op": "pool", "ins": [pick(c)], "kind": rng.choice(["avg", "max"])})
        elif kind == "flat":
            c = [t for t in nf if t != 0 and sh[t]["ch"] * sh[t]["sp"] ** dim <= 80]
            if c:
                nodes.append({"op": "flat", "ins": [pick(c)]})
        elif kind == "add":
            have = {tuple(nd["ins"]) for nd in nodes if nd["op"] == "add"}
            pairs = [(p, q) for p in T for q in T if p != q and sh[p] == sh[q] and (p, q) not in have]
            if pairs:
                p, q = rng.choice(pairs)
                nodes.append({"op": "add", "ins": [p, q]})
    # close: every tensor but the last must be consumed
    a = norm_arch({"dim": dim, "c0": c0, "sp": sp, "nodes": nodes})
    for _ in range(12):
        sh = shapes(a)
        used = {p for nd in a["nodes"] for p in nd["ins"]}
        dangling = [t for t in range(len(sh) - 1) if t not in used]
        if not dangling:
            break
        t_ = dangling[0]
        last = len(sh) - 1
        have = {tuple(nd["ins"]) for nd in a["nodes"] if nd["op"] == "add"}
        if sh[t_] == sh[last] and (t_, last) not in have and (last, t_) not in have:
            a["nodes"].append({"op": "add", "ins": [t_, last] if rng.random() < 0.5 else [last, t_]})
        elif not sh[t_]["flat"] and not sh[last]["flat"] and sh[t_]["sp"] == sh[last]["sp"]:
            a["nodes"].append({"op": "conv", "ins": [t_], "out": sh[last]["ch"], "k": 1, "causal": dim == 1})
        elif not sh[t_]["flat"]:
            a["nodes"].append({"op": "flat", "ins": [t_]})
        elif sh[t_]["flat"] and sh[last]["flat"]:
            a["nodes"].append({"op": "lin", "ins": [t_], "out": sh[last]["ch"]})
        else:
            a["nodes"].append({"op": "flat", "ins": [last]})
        a = norm_arch(a)
    sh = shapes(a)
    if rng.random() < 0.75 or not any(n["op"] in ("conv", "lin") for n in a["nodes"]):
        if not sh[-1]["flat"]:
            if sh[-1]["ch"] * sh[-1]["sp"] ** dim > 96:
                a["nodes"].append({"op": "pool", "ins": [len(sh) - 1]})
                a = norm_arch(a)
            a["nodes"].append({"op": "flat", "ins": [len(a["nodes"])]})
            a = norm_arch(a)
        a["nodes"].append({"op": "lin", "ins": [len(a["nodes"])], "out": rng.choice([2, 3, 5]), "bias": True})
    a = norm_arch(a)
    used = {p for nd in a["nodes"] for p in nd["ins"]}
    sh = shapes(a)
    # a plain conv with exactly one input and one output channel satisfies plinio's depthwise pattern (groups = in = out = 1):
    # which cost function / sharing rule applies is ambiguous (cf. F26), such layers are not generated
    ambiguous = any(nd["op"] == "conv" and not nd["dw"] and sh[nd["ins"][0]]["ch"] == 1 and nd["out"] == 1 for nd in a["nodes"])
    if ambiguous or any(t_ not in used for t_ in range(len(a["nodes"]))):
        return random_mps_arch(rng, max_nodes, dim, reuse)
    return a


def pc_ok(arch) -> bool:
    """Mirror of MPSLifeMC!PcOk, used ONLY to restrict the random generator of per-channel scenarios (never for a
    verdict): no searchable layer / add tied to the network input, one width per sharing component, ends in a layer."""
    arch = norm_arch(arch)
    nodes = arch["nodes"]
    n = len(nodes)
    sh = shapes(arch)
    par = list(range(n + 2))

    def find(x):
        while par[x] != x:
            par[x] = par[par[x]]
            x = par[x]
        return x
    for i, nd in enumerate(nodes, start=1):
        defining = nd["op"] in ("conv", "lin") and not nd["dw"]
        if not defining:
            for p in nd["ins"]:
                par[find(p)] = find(i)
    par[find(n)] = find(n + 1)
    if nodes[-1]["op"] not in ("conv", "lin"):
        return False
    width: Dict[int, int] = {}
    for i, nd in enumerate(nodes, start=1):
        if nd["op"] in ("conv", "lin", "add") and find(i) == find(0):
            return False
        if nd["op"] in ("conv", "lin"):
            if width.setdefault(find(i), sh[i]["ch"]) != sh[i]["ch"]:
                return False
    return True


ALL15 = [[2], [4], [8], [2, 4], [4, 2], [2, 8], [8, 2], [4, 8], [8, 4],
         [2, 4, 8], [2, 8, 4], [4, 2, 8], [4, 8, 2], [8, 2, 4], [8, 4, 2]]


# ------------------------------------------------------------------ shared driver of C02 / C05
def _arch_sig(a) -> str:
    return ",".join(sorted(n["op"] + ("d" if n["dw"] else "") + ("b" if n["bn"] else "") + (str(n["k"]) if n["op"] == "conv" else "")
                           for n in a["nodes"])) + "|" + ";".join(",".join(map(str, n["ins"])) for n in a["nodes"] if n["op"] == "add")


def _group_states(states) -> Dict[str, List[Dict[str, Any]]]:
    """'sel' states grouped by (architecture, configuration): one model build per group."""
    from .core import canon
    groups: Dict[str, List[Dict[str, Any]]] = {}
    for st in states:
        if st.get("phase") == "sel":
            groups.setdefault(canon([st["arch"], st["cfg"]]), []).append(st)
    return groups


def _sample_groups(groups: Dict[str, List[Any]], limit: int, per_group: int, rng: random.Random) -> List[List[Any]]:
    """Stratified by architecture signature (rare shapes survive), then by configuration; deterministic for a seed."""
    keys = sorted(groups)
    if not limit or sum(min(len(groups[k]), per_group or len(groups[k])) for k in keys) <= limit:
        return [groups[k] if not per_group else _take(groups[k], per_group, rng) for k in keys]
    buckets: Dict[str, List[str]] = {}
    for k in keys:
        st = groups[k][0]
        buckets.setdefault(_arch_sig(st["arch"]), []).append(k)
    for b in buckets.values():
        rng.shuffle(b)
    order = sorted(buckets)
    rng.shuffle(order)
    out, n = [], 0
    while n < limit and order:
        for sig in list(order):
            b = buckets[sig]
            if not b:
                order.remove(sig)
                continue
            g = groups[b.pop()]
            g = _take(g, per_group, rng) if per_group else g
            out.append(g)
            n += len(g)
            if n >= limit:
                break
    return out


def _take(lst, k, rng):
    if len(lst) <= k:
        return list(lst)
    idx = sorted(rng.sample(range(len(lst)), k))
    return [lst[i] for i in idx]


HIST_ACTS = ["fwd_eval", "fwd_hard", "fwd_ghard", "load", "export", "summary", "upd",
             "to_eval", "to_hard", "to_ghard", "fwd_n", "fwd_g", "fwd_n", "fwd_g", "copy", "data", "sgd_net", "sgd_all",
             "fork", "loadT"]
C02_ACTS = ["to_eval", "to_eval", "to_hard", "to_ghard", "fwd_n", "fwd_n", "fwd_g", "load", "copy", "data", "sgd_net", "sgd_net",
            "sgd_all", "export!", "export!", "summary", "upd", "fork", "loadT"]


def _options(pid: str, cfg: Dict[str, Any], rng: random.Random, dim: int = 2, p_hist: float = 0.0) -> Dict[str, Any]:
    """Construction / evaluation options of one model build (the property's quantifier: temperature 0.05..20,
    gumbel on/off, hard on/off; C05: eval, hard-sampling training mode, hard-Gumbel training mode, call histories;
    tracing example: input_shape (batch 1) or an input_example with a batch of 2..5)."""
    temp = round(0.05 * (400.0 ** rng.random()), 3)
    o: Dict[str, Any] = {"temp": temp, "prop": pid, "batch": rng.randint(2, 5) if rng.random() < 0.3 else 0}
    if pid == "C02":
        o.update({"mode": "eval", "gumbel": rng.random() < 0.5, "hard_flag": rng.random() < 0.3,
                  "metrics": [], "probe": False, "export": True})
        if rng.random() < p_hist:
            o["hist"] = [rng.choice(C02_ACTS) for _ in range(rng.randint(1, 7))] + ["export!"]
    else:
        mode = rng.choices(["eval", "hard", "ghard"], weights=[4, 3, 3])[0]
        mets = ["params_bit", "ops_bit"]
        if cfg["wt"] == "pl":
            mets.append("mpic_latency")
            if list(cfg["pa"]) == [8] and list(cfg["pin"]) == [8] and dim == 2:
                mets.append("ne16_latency")
        rng.shuffle(mets)                       # the metrics are read in this order, then in the reverse order
        o.update({"mode": mode, "gumbel": (rng.random() < 0.5) if mode == "eval" else mode == "ghard",
                  "metrics": mets, "probe": True, "export": False, "full": rng.random() < 0.25})
        if rng.random() < p_hist:
            o["hist"] = [rng.choice(HIST_ACTS) for _ in range(rng.randint(0, 7))]
    return o


GRAD_THETA = ("fwd_g", "sgd_net", "sgd_all")
NOGRAD_THETA = ("fwd_n", "fwd_eval", "fwd_hard", "fwd_ghard", "export!")


def gate_forks(hist, allow: bool):
    """Finding F74: deepcopy of an MPS model raises when the theta_alpha buffers were produced by a forward pass with autograd
    enabled.  While F74 is not listed such forks are not generated (the call is replaced by summary); generation-side only -
    the verdict (signature MPSLifeTrace!ForkAfterGrad) is TLC's."""
    if hist is None or allow:
        return hist, 0
    out, last, n = [], None, 0
    for a in hist:
        if a == "fork" and last in GRAD_THETA:
            out.append("summary")
            n += 1
            continue
        if a in GRAD_THETA or a in NOGRAD_THETA:
            last = a
        out.append(a)
    return out, n


def _nontrivial(tr) -> bool:
    """Some quantiser's winner differs from the initial arg-max (the largest precision of its tuple)."""
    for r in tr["L"]:
        if len(r["cand_o"]) > 1 and r["am_o"] != max(r["cand_o"]):
            return True
        if len(r["cand_w"]) > 1 and any(b != max(r["cand_w"]) for b in r["am_w"]):
            return True
    return False


def _corrupt(tr, pid, rng):
    """A copy of an accepted trace with ONE observed field changed; the trace spec must reject it."""
    import copy
    c = copy.deepcopy(tr)
    layers = [r for r in c["L"] if r["kind"] in ("conv", "lin")]
    if pid == "C02":
        kind = rng.choice(["bit", "ex_i", "su_o", "ex_w", "am_o", "exp_bit", "exp_wcur", "ex_pm", "ex_s"])
        r = rng.choice(layers)
        if kind == "bit":
            c["bit_identical"] = False
        elif kind == "exp_bit":
            rng.choice(c["exports"])["bit"] = False
        elif kind == "exp_wcur":
            rng.choice(c["exports"])["wcur"] = False
        elif kind == "ex_pm":
            r["ex_pm"] = "reflect" if r["ex_pm"] != "reflect" else "zeros"
        elif kind == "ex_s":
            r["ex_s"] = r["ex_s"] + 1
        elif kind == "ex_i":
            r["ex_i"] = 2 if r["ex_i"] != 2 else 4
        elif kind == "su_o":
            r["su_o"] = 2 if r["su_o"] != 2 else 4
        elif kind == "ex_w":
            r["ex_w"] = [2 if b != 2 else 4 for b in r["ex_w"]]
        else:
            r["am_o"] = 2 if r["am_o"] != 2 else 4
    else:
        kind = rng.choice(["cost", "cost", "pr_in", "pr_out", "th_w", "cost2", "frame", "rep"])
        r = rng.choice(layers)
        if kind == "cost":
            m = rng.choice([x for x in c["metrics"] if x in ("params_bit", "ops_bit")])     # defined on every model
            c["cost"][m] = c["cost"][m] + max(200, abs(c["cost"][m]) // 50)
        elif kind == "pr_in":
            r["pr_in"] += 1000
        elif kind == "pr_out":
            r["pr_out"] += 1000
        elif kind == "frame":
            c["frame_changed"] = "state_dict:seed.layers.n1.feat_calc_const"
        elif kind == "rep":
            c["cost_rep"][rng.choice([x for x in c["metrics"] if x in ("params_bit", "ops_bit")])] = False
        elif kind == "cost2":
            m = rng.choice([x for x in c["metrics"] if x in ("params_bit", "ops_bit")])
            c["cost2"][m] = c["cost2"][m] + max(200, abs(c["cost2"][m]) // 50)
        else:
            r["th_w"] = [(2 if b != 2 else 4) for b in r["th_w"]]
    return c, kind


def run_check(pid: str, tier: str, seed: int, replay: Optional[str], plan: Dict[str, Any]) -> int:
    import json
    from .core import Run, use_repo
    from . import pitgen
    R = Run(pid, tier, seed, level="model_checking")
    R.rule = plan["rule"]
    R.assumptions = plan["assumptions"]
    use_repo()
    procs = plan.get("procs", 8)

    def key_of(sc):
        return {k: v for k, v in sc.items() if not k.startswith("_")}

    if replay:
        sc = json.load(open(replay))["scenario"]
        sc = key_of(sc)
        tr = run_scenarios([sc], procs=1)
        R.validate("MPSLifeTrace", "MPSLifeTrace", tr, [sc], key=key_of)
        return R.finish()

    rng = random.Random(seed)
    scs: List[Dict[str, Any]] = []
    labels: List[str] = []
    build_no = 0
    replay_info = []
    first = True
    skipped_gated = {}
    for entry in plan["design"]:
        cfg, limit, per_group, label = entry[:4]
        gate = entry[4] if len(entry) > 4 else None
        kw = {"workers": plan.get("tlc_workers", 8)}
        if first:
            kw.update({"coverage": True, "require_cov": ["MPSLifeMC!Grow", "MPSLifeMC!Seal", "MPSLifeMC!Select"]})
            first = False
        states = pitgen.dump_states("MPSLifeMC", cfg, R, **kw)
        groups = _group_states(states)
        n_sel = sum(len(g) for g in groups.values())
        if gate and gate not in R.known_open:
            # the states of this configuration carry the signature of a finding that is not listed (yet): the design
            # level is model-checked, the replay would only re-report the unlisted finding
            skipped_gated[cfg] = {"needs_open_finding": gate, "selected_states_not_replayed": n_sel}
            continue
        chosen = _sample_groups(groups, limit, per_group, rng)
        n = 0
        for g in chosen:
            build_no += 1
            opts = None
            for j, st in enumerate(g):
                sc = scenario_from_state(st)
                if opts is None:
                    opts = _options(pid, sc["cfg"], rng, dim=sc["arch"]["dim"])
                    if any(nd["reuse"] for nd in sc["arch"]["nodes"]):
                        opts["full"] = False
                hist = sc.get("hist")
                sc.update(opts)
                if hist is not None:
                    sc["hist"] = hist
                    sc["mode"] = "eval"
                    sc["gumbel"] = False
                    if pid == "C02":        # every export of the history is compared with the model, and one more at the end
                        sc["hist"] = ["export!" if a == "export" else a for a in hist]
                        if not sc["hist"] or sc["hist"][-1] != "export!":
                            sc["hist"].append("export!")
                sc["order"] = "ef" if (j + build_no) % 2 else "fe"
                sc["seed"] = build_no * 1000 + j
                sc["src"] = label
                scs.append(sc)
                labels.append(label)
                n += 1
        replay_info.append({"cfg": cfg, "selected_states": n_sel, "model_builds_available": len(groups),
                            "replayed_states": n, "replayed_builds": len(chosen)})
    for cfg in plan.get("sanity", []):
        R.design("MPSLifeMC", cfg, expect_ok=False, workers=plan.get("tlc_workers", 8))
    # ---- code -> spec: seeded random architectures / tuples / winners / histories outside the exhaustive bounds
    for i in range(plan.get("n_random", 0)):
        build_no += 1
        dim = 1 if rng.random() < plan.get("p_1d", 0.35) else 2
        pc = pid == "C05" and rng.random() < plan.get("p_pc", 0.5)
        reuse = (not pc) and rng.random() < plan.get("p_reuse", 0.25)
        arch = random_mps_arch(rng, plan.get("max_nodes", 9), dim, reuse)
        if pc:
            for _ in range(50):
                if pc_ok(arch):
                    break
                arch = random_mps_arch(rng, plan.get("max_nodes", 9), dim, False)
            pw = rng.choice([[0, 2, 8], [4, 0], [0, 8, 4, 2], [2, 4, 8], [8, 4], [2, 0, 4]])
            cfg_ = {"pin": rng.choice(ALL15), "pa": rng.choice(ALL15), "pw": pw, "wt": "pc"}
        else:
            pa = rng.choice(ALL15)
            cfg_ = {"pin": pa if rng.random() < 0.5 else rng.choice(ALL15), "pa": pa, "pw": rng.choice(ALL15), "wt": "pl"}
            if pid == "C05" and rng.random() < 0.2:
                cfg_["pin"] = cfg_["pa"] = [8]
        opts = _options(pid, cfg_, rng, dim=dim, p_hist=plan.get("p_hist", 0.35))
        for j in range(plan.get("random_sels", 2)):
            sc = {"arch": arch, "cfg": cfg_, "sel": None}
            sc.update(opts)
            sc["order"] = "ef" if (j + build_no) % 2 else "fe"
            sc["seed"] = build_no * 1000 + j
            sc["src"] = "random"
            scs.append(sc)
            labels.append("random")
    # ---- pinned histories: the sequences the claims are about, on a few seeded architectures of every kind (always run)
    if pid == "C02":
        pinned = [["fwd_n", "copy", "export!"], ["fwd_n", "load", "fwd_n", "export!"], ["fwd_g", "data", "export!"],
                  ["export!", "sgd_net", "export!"], ["export!", "sgd_net", "sgd_net", "export!", "sgd_all", "export!"],
                  ["to_hard", "fwd_g", "copy", "to_eval", "fwd_n", "data", "export!", "sgd_net", "to_eval", "fwd_n", "export!"],
                  ["fwd_n", "fork", "copy", "export!"], ["fork", "load", "fwd_n", "export!", "sgd_net", "export!"],
                  ["fwd_n", "loadT", "fork", "data", "fwd_n", "export!"],
                  # a write of every kind, then summary() and export() WITHOUT a forward pass in between
                  ["fwd_n", "load", "summary", "export!"], ["fwd_n", "copy", "export!"], ["fwd_n", "data", "export!"],
                  ["to_hard", "fwd_n", "sgd_all", "export!"], ["copy", "export!"],
                  # training mode with hard Gumbel sampling: summary() right after a training forward pass
                  ["to_ghard", "fwd_n", "export!"], ["to_ghard", "fwd_n", "copy", "export!", "fwd_n", "export!"]]
    else:
        pinned = [["fwd_n", "copy", "fwd_n"], ["fwd_n", "load", "fwd_n"], ["fwd_n", "data", "fwd_n"], ["fwd_g", "copy", "fwd_g"],
                  ["to_hard", "fwd_n", "copy", "fwd_n"], ["to_hard", "fwd_g", "data", "to_eval", "fwd_n", "load", "fwd_n"],
                  ["fwd_n", "sgd_net", "to_eval", "fwd_n", "copy", "fwd_n"], ["to_ghard", "fwd_n", "to_eval", "fwd_n", "data", "fwd_g"],
                  ["fwd_n", "fork", "copy", "fwd_n"], ["fork", "fwd_n"], ["to_hard", "fwd_g", "fork", "data", "fwd_g"],
                  ["fwd_n", "fork", "loadT", "load", "fwd_n"], ["fwd_n", "loadT", "fwd_n"]]
    prng = random.Random(seed + 4242)
    for k in range(plan.get("n_pinned_archs", 4)):
        dim = 1 if k % 3 == 2 else 2
        pc = pid == "C05" and k % 2 == 1
        arch = random_mps_arch(prng, 6, dim, False)
        while pc and not pc_ok(arch):
            arch = random_mps_arch(prng, 6, dim, False)
        if k == 0:          # depthwise conv fed by the network input (its input features come from a constant calculator); Linear
            arch = norm_arch({"dim": 2, "c0": 3, "sp": 4, "nodes": [{"op": "conv", "ins": [0], "dw": True, "k": 3}, {"op": "conv", "ins": [1], "out": 2, "k": 1},
                                                                  {"op": "flat", "ins": [2]}, {"op": "lin", "ins": [3], "out": 3},
                                                                  {"op": "relu", "ins": [4]}, {"op": "lin", "ins": [5], "out": 2}]})
        elif k == 1 and not pc:    # conv-only 2-D network with a residual add (MPSConv2d, MPSAdd, input quantiser)
            arch = norm_arch({"dim": 2, "c0": 2, "sp": 4, "nodes": [{"op": "conv", "ins": [0], "out": 3, "k": 3}, {"op": "conv", "ins": [1], "out": 3, "k": 3},
                                                                  {"op": "add", "ins": [1, 2]}, {"op": "conv", "ins": [3], "out": 2, "k": 1},
                                                                  {"op": "conv", "ins": [4], "out": 2, "k": 3}]})
        elif k == 2:        # 1-D network: MPSConv1d (plain and depthwise) and two MPSLinear
            arch = norm_arch({"dim": 1, "c0": 2, "sp": 8, "nodes": [{"op": "conv", "ins": [0], "out": 3, "k": 3, "causal": True},
                                                                  {"op": "conv", "ins": [1], "dw": True, "k": 3, "causal": True},
                                                                  {"op": "conv", "ins": [2], "out": 2, "k": 2, "causal": True}, {"op": "flat", "ins": [3]},
                                                                  {"op": "lin", "ins": [4], "out": 3}, {"op": "lin", "ins": [5], "out": 2}]})
        elif k == 3 and not pc:    # conv-only 1-D network
            arch = norm_arch({"dim": 1, "c0": 2, "sp": 8, "nodes": [{"op": "conv", "ins": [0], "out": 3, "k": 3, "causal": True},
                                                                  {"op": "conv", "ins": [1], "out": 3, "k": 3, "causal": True},
                                                                  {"op": "add", "ins": [2, 1]}, {"op": "conv", "ins": [3], "out": 2, "k": 1, "causal": True}]})
        cfg_ = {"pin": [2, 4, 8], "pa": [8, 2, 4], "pw": [0, 4, 8] if pc else [4, 8, 2], "wt": "pc" if pc else "pl"}
        build_no += 1
        opts = _options(pid, cfg_, prng, dim=dim)
        opts.update({"mode": "eval", "gumbel": False, "full": False})
        for j, h in enumerate(pinned):
            sc = {"arch": arch, "cfg": cfg_, "sel": None}
            sc.update(opts)
            sc.update({"hist": list(h), "order": "fe", "seed": build_no * 1000 + j, "src": "pinned-histories"})
            scs.append(sc)
            labels.append("pinned-histories")
    # ---- full_cost = True on networks with fixed (excluded) layers: finding F65, replayed only while it is listed
    if pid == "C05":
        fam = []
        for dim in (2, 1):
            for ex in ([2], [1], [3], [1, 3]):
                nodes = [{"op": "conv", "ins": [0], "out": 3, "k": 3, "causal": dim == 1},
                         {"op": "conv", "ins": [1], "out": 2, "k": 1, "causal": dim == 1},
                         {"op": "flat", "ins": [2]}, {"op": "lin", "ins": [3], "out": 2}]
                for e in ex:
                    nodes[e - 1 if e < 3 else 3]["excl"] = True
                fam.append(norm_arch({"dim": dim, "c0": 2, "sp": 4, "nodes": nodes}))
        if "F65" in R.known_open:
            for k, arch in enumerate(fam):
                build_no += 1
                cfg_ = {"pin": [2, 4, 8], "pa": [4, 8], "pw": [8, 2, 4], "wt": "pl"}
                sc = {"arch": arch, "cfg": cfg_, "sel": None, "temp": 1.0, "prop": pid, "mode": "eval", "gumbel": False,
                      "metrics": ["params_bit", "ops_bit", "mpic_latency"], "probe": False, "export": False, "full": True,
                      "order": "fe", "seed": build_no * 1000, "src": "fullcost-fixed"}
                scs.append(sc)
                labels.append("fullcost-fixed")
        else:
            skipped_gated["full_cost with fixed layers"] = {"needs_open_finding": "F65", "scenarios_not_run": len(fam)}
    R.extra["not_replayed_unlisted_findings"] = skipped_gated
    n_gated_forks = 0
    for sc in scs:
        if sc.get("hist") is not None:
            sc["hist"], k_ = gate_forks(sc["hist"], "F74" in R.known_open)
            n_gated_forks += k_
    if n_gated_forks:
        R.extra.setdefault("not_replayed_unlisted_findings", {})["fork after a forward pass with autograd"] = {
            "needs_open_finding": "F74", "fork_calls_replaced_by_summary": n_gated_forks}
    traces = run_scenarios(scs, procs=procs)
    for sc, tr in zip(scs, traces):
        sc["_nt"] = _nontrivial(tr) and (pid != "C02" or tr["y_varies"])
    R.extra["constructor_raised"] = sum(1 for t in traces if not t["build_ok"])
    R.sample({"scenario": {k: scs[0][k] for k in ("arch", "cfg", "sel", "mode", "temp", "gumbel", "order")},
              "observed": {"bit_identical": traces[0]["bit_identical"], "cost_x100": traces[0]["cost"],
                           "layers": [{k: r[k] for k in ("n", "kind", "am_i", "am_w", "am_o", "su_i", "su_w", "su_o", "ex_i", "ex_w", "ex_o",
                                                         "pr_in", "pr_out")} for r in traces[0]["L"]]}})
    if scs and scs[-1]["src"] == "random":
        R.sample({"scenario": {k: scs[-1][k] for k in ("arch", "cfg", "mode", "temp", "gumbel", "order", "seed")},
                  "observed": {"bit_identical": traces[-1]["bit_identical"], "cost_x100": traces[-1]["cost"],
                               "summary": [{k: r[k] for k in ("n", "kind", "su_i", "su_w", "su_o")} for r in traces[-1]["L"]]}})
    vs = R.validate("MPSLifeTrace", "MPSLifeTrace", traces, scs, nontrivial=lambda s: s["_nt"], key=key_of,
                    label="replay of MPSLifeMC states + seeded random scenarios", workers=plan.get("tlc_workers", 8))
    verdicts = list(enumerate(vs))
    R.extra["replay"] = replay_info
    R.extra["scenarios_by_source"] = {l: labels.count(l) for l in sorted(set(labels))}
    R.extra["bit_identical_all"] = all(t["bit_identical"] for t in traces) if pid == "C02" else None
    R.extra["outputs_vary_over_batch"] = sum(1 for t in traces if t["y_varies"]) if pid == "C02" else None
    # ---- sensitivity of the trace spec: corrupted copies of accepted traces must be rejected
    ok_idx = [i for i, v in verdicts if v == "ok" and traces[i]["L"] and all(r["th_hot"] for r in traces[i]["L"])
              and not (traces[i]["full"] and any(nd["excl"] for nd in traces[i]["arch"]["nodes"]))]
    crng = random.Random(seed + 77)
    pick = _take(ok_idx, min(len(ok_idx), plan.get("n_corrupt", 24)), crng)
    if pick:
        cor = [_corrupt(traces[i], pid, crng) for i in pick]
        cv, _ = tlc.validate_traces("MPSLifeTrace", "MPSLifeTrace", [c for c, _ in cor], workers=plan.get("tlc_workers", 8))
        missed = [k for (c, k), v in zip(cor, cv) if v == "ok" or v.startswith("drift:")]
        R.extra["corrupted_traces_rejected"] = f"{len(cor) - len(missed)}/{len(cor)}"
        if missed:
            raise tlc.MachineryError(f"sensitivity self-test: corrupted traces accepted by MPSLifeTrace (fields: {missed})")
    R.exhaustive = False
    return R.finish()
