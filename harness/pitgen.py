"""Scenario sources for the PIT checks (C01, C04, C08, C09):
   * states dumped by TLC from FeatGraphMC / MaskAlgebraMC (spec -> code),
   * a seeded random generator over the same grammar with larger constants (code -> spec).
"""
from __future__ import annotations

import os
import random
import re
import tempfile
from concurrent.futures import ProcessPoolExecutor
from typing import Any, Dict, List, Tuple

from . import tlc
from .archgen import norm_arch, shapes

BIG = 100000000
V = [0, 3, 6, 10, BIG]


# ------------------------------------------------------------------ parallel execution
def _init_worker():
    import torch
    torch.set_num_threads(1)


def _run_one(sc):
    from .core import use_repo
    use_repo()
    from . import pitscn
    try:
        return pitscn.run(sc)
    except Exception as e:      # a crash of the harness itself: never a verdict, always a machinery failure
        import json
        import traceback
        raise tlc.MachineryError("harness crashed on scenario " + json.dumps(sc, default=str)[:4000] + "\n"
                                 + traceback.format_exc(limit=6)) from None


def run_scenarios(scs: List[Dict[str, Any]], procs: int = 0) -> List[Dict[str, Any]]:
    if not scs:
        return []
    procs = procs or min(12, max(1, (os.cpu_count() or 4) - 2))
    if len(scs) < 8 or procs == 1:
        _init_worker()
        return [_run_one(s) for s in scs]
    import multiprocessing as mp
    ctx = mp.get_context("fork")
    with ProcessPoolExecutor(max_workers=procs, mp_context=ctx, initializer=_init_worker) as ex:
        return list(ex.map(_run_one, scs, chunksize=max(1, len(scs) // (procs * 8))))


# ------------------------------------------------------------------ TLC dumps
def dump_states(module: str, cfg: str, run, **kw) -> List[Dict[str, Any]]:
    """Model-check a design config with R.design and return all its states (parsed dump)."""
    base = tempfile.mktemp(prefix="dump-", dir=tlc.scratch())
    res = run.design(module, cfg, extra=["-dump", base], **kw)
    path = base + ".dump" if os.path.exists(base + ".dump") else base
    txt = open(path).read()
    os.unlink(path)
    states = []
    for blk in re.split(r"(?m)^State \d+:\s*$", txt):
        blk = blk.strip()
        if blk:
            states.append(tlc.parse_state(blk))
    if len(states) != res.distinct:
        raise tlc.MachineryError(f"dump of {module}/{cfg}: {len(states)} states parsed, TLC reported {res.distinct}")
    return states


def fun_items(f) -> List[Tuple[int, Any]]:
    """A TLC function value with integer domain (printed as <<..>> or (k :> v @@ ...))."""
    if isinstance(f, dict):
        return [(int(k), v) for k, v in f.items()]
    return [(i + 1, v) for i, v in enumerate(f)]


def arch_from_tla(a: Dict[str, Any]) -> Dict[str, Any]:
    return norm_arch({"dim": a["dim"], "c0": a["c0"], "sp": a["sp"], "nodes": [dict(n) for n in a["nodes"]]})


def alive_for_layers(arch, f_items, rep_of: Dict[int, int]) -> Dict[str, List[int]]:
    """TLC's alive assignment is per masker representative; write it through every searchable layer whose
    component representative it is (rep_of is computed by a reachability pass identical in spirit to Comp,
    used ONLY to decide through which layer object alpha is written)."""
    out = {}
    fm = dict(f_items)
    for n, r in rep_of.items():
        if r in fm:
            out[str(n)] = sorted(int(c) for c in fm[r])
    return out


def comp_reps(arch, with_frozen: bool = False) -> Dict[int, Any]:
    """node -> smallest node of its sharing component, for searchable layers (mirror of FeatGraph.Rep; the
    harness needs it only to know WHERE to write alpha, never to decide a verdict)."""
    nodes = arch["nodes"]
    n = len(nodes)

    def op(i):
        return "in" if i == 0 else nodes[i - 1]["op"]

    def defining(i):
        return i == 0 or (op(i) in ("conv", "lin") and not nodes[i - 1]["dw"])
    adj = {i: set() for i in range(n + 2)}
    for i in range(1, n + 1):
        if defining(i) or op(i) == "cat":
            continue
        for p in nodes[i - 1]["ins"]:
            adj[p].add(i)
            adj[i].add(p)
    adj[n].add(n + 1)
    adj[n + 1].add(n)
    rep = {}
    for i in range(1, n + 1):
        if op(i) in ("conv", "lin") and not nodes[i - 1]["excl"]:
            seen = {i}
            st = [i]
            while st:
                u = st.pop()
                for w in adj[u]:
                    if w not in seen:
                        seen.add(w)
                        st.append(w)
            rep[i] = min(seen)
            if with_frozen:
                defining_nodes = [u for u in seen if u <= n and defining(u)]
                rep[i] = (min(seen), (0 in seen) or ((n + 1) in seen), bool(defining_nodes))
    return rep


# ------------------------------------------------------------------ random generator (same grammar, larger)
def random_arch(rng: random.Random, *, dim: int, max_nodes: int, widths=(2, 3, 4, 6), kernels=(1, 2, 3, 5),
                allow_excl=False, allow_findings=False, strided=True, reuse=True, nonzero_ops=True,
                standalone_bn=False, explicit_sym_pad=False) -> Dict[str, Any]:
    c0 = rng.choice([1, 2, 3])
    sp = rng.choice([4, 6, 8]) if dim == 1 else rng.choice([4, 6])
    nodes: List[Dict[str, Any]] = []
    for _ in range(200):
        if len(nodes) >= max_nodes:
            break
        a = norm_arch({"dim": dim, "c0": c0, "sp": sp, "nodes": nodes})
        sh = shapes(a)
        T = list(range(len(sh)))
        nf = [t for t in T if not sh[t]["flat"]]
        fl = [t for t in T if sh[t]["flat"]]
        # prefer consuming not-yet-used tensors so that architectures close
        used = {p for nd in nodes for p in nd["ins"]}
        fresh = [t for t in T if t not in used]
        pick = lambda cand: rng.choice([t for t in cand if t in fresh] or cand)
        kind = rng.choices(["conv", "dw", "lin", "relu", "pool", "flat", "add", "cat", "catt", "reuse"],
                           weights=[6, 2, 3 if fl else 0, 3, 1, 1.5 if nf else 0, 2, 2, 0.7,
                                    0.8 if reuse else 0])[0]
        if kind == "catt" and dim == 2 and rng.random() < 0.5:
            kind = "relu"
        if kind == "conv" and nf:
            k = rng.choice(kernels) if dim == 1 else rng.choice([1, 3])
            s = rng.choice([1, 1, 1, 2]) if strided else 1
            p_in = pick(nf)
            d_ = rng.choice([1, 1, 2, 3]) if dim == 1 else rng.choice([1, 1, 2])
            nd_ = {"op": "conv", "ins": [p_in], "out": rng.choice(widths), "k": k, "d": d_, "s": s,
                   "bias": rng.random() < 0.7, "bn": rng.random() < 0.4, "causal": dim == 1,
                   "excl": allow_excl and rng.random() < 0.15}
            r_ = rng.random()
            if r_ < 0.12 and sh[p_in]["sp"] - d_ * (k - 1) >= 1 and (dim == 1 or sh[p_in]["spw"] - d_ * (k - 1) >= 1):
                nd_.update({"valid": True, "causal": False})            # un-padded convolution
            elif explicit_sym_pad and r_ < 0.22 and s == 1 and k > 1 and dim == 1 and ((k - 1) * d_) % 2 == 0 and not nd_["excl"]:
                nd_.update({"causal": False, "sym": True})              # explicit symmetric ConstantPad1d + un-padded conv
            elif r_ < 0.34 and s == 1 and k > 1 and dim == 1:
                nd_.update({"causal": False, "pm": rng.choice(["zeros", "reflect", "replicate", "circular"])})   # 'same' padding
            elif r_ < 0.30 and k > 1 and dim == 2:
                nd_["pm"] = rng.choice(["zeros", "reflect", "replicate", "circular"])
            if nd_.get("pm", "zeros") in ("reflect",) and (sh[p_in]["sp"] <= d_ * (k // 2) or (dim == 2 and sh[p_in]["spw"] <= d_ * (k // 2))):
                nd_["pm"] = "replicate"          # reflect padding needs pad < size
            if nd_.get("pm", "zeros") == "circular" and (sh[p_in]["sp"] < d_ * (k // 2) or (dim == 2 and sh[p_in]["spw"] < d_ * (k // 2))):
                nd_["pm"] = "zeros"
            nodes.append(nd_)
        elif kind == "dw" and nf:
            p = pick([t for t in nf if t != 0] or nf)
            nodes.append({"op": "conv", "ins": [p], "dw": True, "k": rng.choice([1, 3]) if dim == 2 else rng.choice(kernels),
                          "bias": rng.random() < 0.7, "bn": rng.random() < 0.3, "causal": dim == 1})
        elif kind == "lin" and fl:
            nodes.append({"op": "lin", "ins": [pick(fl)], "out": rng.choice(widths), "bias": rng.random() < 0.7,
                          "bn": rng.random() < 0.3, "excl": allow_excl and rng.random() < 0.15})
        elif kind == "reuse":
            # weight-shared residual block:  h' = relu(B(h)) + h ;  h'' = relu(B(h')) + h'
            c = [t for t in nf if t != 0 and sh[t]["ch"] <= 6]
            if c and len(nodes) + 6 <= max_nodes + 4:
                h = pick(c)
                w = sh[h]["ch"]
                k = rng.choice([1, 3]) if dim == 2 else rng.choice([1, 2, 3, 5])
                b = len(nodes) + 1
                blk = {"op": "conv", "ins": [h], "out": w, "k": k, "d": 1, "s": 1, "bias": rng.random() < 0.7,
                       "bn": False, "causal": dim == 1}
                nodes.append(dict(blk))
                nodes.append({"op": "relu", "ins": [b]})
                nodes.append({"op": "add", "ins": [b + 1, h]})
                blk2 = dict(blk)
                blk2.update({"ins": [b + 2], "reuse": b})
                nodes.append(blk2)
                nodes.append({"op": "relu", "ins": [b + 3]})
                nodes.append({"op": "add", "ins": [b + 4, b + 2]})
        elif kind == "relu" and len(T) > 1:
            # element-wise ops of plinio's "features propagating" list; sigmoid is NOT zero-preserving
            nodes.append({"op": rng.choices(["relu", "tanh", "silu", "drop", "id", "sig", "bns", "relu6", "lsm"],
                                            weights=[6, 1, 1, 1, 1, 1 if nonzero_ops else 0, 2.5 if standalone_bn else 0,
                                                     1 if standalone_bn else 0, 0.7 if (nonzero_ops and standalone_bn) else 0])[0],
                          "ins": [pick(T[1:])]})
        elif kind == "pool":
            c = [t for t in nf if t != 0 and sh[t]["sp"] >= 2 and (dim == 1 or sh[t]["spw"] >= 2)]
            if c:
                nodes.append({"op": "pool", "ins": [pick(c)], "kind": rng.choice(["avg", "max"])})
        elif kind == "flat" and nf:
            c = [t for t in nf if sh[t]["ch"] * sh[t]["sp"] * sh[t]["spw"] <= 64]
            if c and dim == 1 and rng.random() < 0.3 and [t for t in c if t != 0]:
                nodes.append({"op": "gsq", "ins": [pick([t for t in c if t != 0])], "d": rng.choice([2, -1])})
            elif c:
                nodes.append({"op": "flat", "ins": [pick(c)]})
        elif kind in ("add", "catt"):
            pairs = [(p, q) for p in T for q in T if p != q and sh[p] == sh[q] and (kind == "add" or not sh[p]["flat"])]
            if kind == "catt":
                pairs = [(p, q) for p in T for q in T if p != q and sh[p]["ch"] == sh[q]["ch"] and sh[p]["spw"] == sh[q]["spw"]
                         and not sh[p]["flat"] and not sh[q]["flat"] and sh[p]["sp"] + sh[q]["sp"] <= 12]
            if pairs:
                p, q = rng.choice(pairs)
                nodes.append({"op": kind, "ins": [p, q], "d": rng.choice([1, -1]),
                              "sub": kind == "add" and standalone_bn and rng.random() < 0.25})      # a - b instead of a + b
        elif kind == "cat":
            pairs = [(p, q) for p in T for q in T if p != q and sh[p]["sp"] == sh[q]["sp"] and sh[p]["spw"] == sh[q]["spw"]
                     and sh[p]["flat"] == sh[q]["flat"] and sh[p]["ch"] + sh[q]["ch"] <= 16]
            if pairs:
                p, q = rng.choice(pairs)
                ins = [p, q]
                if rng.random() < 0.25:
                    third = [t for t in T if t not in ins and sh[t]["sp"] == sh[p]["sp"] and sh[t]["spw"] == sh[p]["spw"]
                             and sh[t]["flat"] == sh[p]["flat"] and sh[t]["ch"] <= 6]
                    if third:
                        ins.append(rng.choice(third))
                nodes.append({"op": "cat", "ins": ins})
    # close the architecture: every tensor but the last must be consumed; append relu/add consumers greedily,
    # then finish with a head (flatten + linear) so that the last searchable group is output-connected
    a = norm_arch({"dim": dim, "c0": c0, "sp": sp, "nodes": nodes})
    for _ in range(10):
        sh = shapes(a)
        used = {p for nd in a["nodes"] for p in nd["ins"]}
        dangling = [t for t in range(len(sh) - 1) if t not in used]
        if not dangling:
            break
        t = dangling[0]
        last = len(sh) - 1
        if sh[t] == sh[last]:
            a["nodes"].append({"op": "add", "ins": [t, last]})
        elif sh[t]["sp"] == sh[last]["sp"] and sh[t]["spw"] == sh[last]["spw"] and sh[t]["flat"] == sh[last]["flat"]:
            a["nodes"].append({"op": "cat", "ins": [last, t]})
        elif not sh[t]["flat"] and not sh[last]["flat"]:
            # bring both to flat and concatenate
            a["nodes"].append({"op": "flat", "ins": [t]})
            a["nodes"].append({"op": "flat", "ins": [last]})
            n = len(a["nodes"])
            a["nodes"].append({"op": "cat", "ins": [n - 1, n]})
        elif sh[t]["flat"] and not sh[last]["flat"]:
            a["nodes"].append({"op": "flat", "ins": [last]})
            n = len(a["nodes"])
            a["nodes"].append({"op": "cat", "ins": [t, n]})
        else:
            a["nodes"].append({"op": "flat", "ins": [t]})
            n = len(a["nodes"])
            a["nodes"].append({"op": "cat", "ins": [last, n]})
        a = norm_arch(a)
    sh = shapes(a)
    if rng.random() < 0.8:
        if not sh[-1]["flat"]:
            a["nodes"].append({"op": "flat", "ins": [len(sh) - 1]})
            a = norm_arch(a)
        a["nodes"].append({"op": "lin", "ins": [len(a["nodes"])], "out": rng.choice([2, 3, 5]), "bias": True})
    return norm_arch(a)


def drop_affine(rng, arch, p=0.2):
    """BatchNorm(affine=False) on some of the fused / standalone BatchNorm layers."""
    for n in arch["nodes"]:
        if (n["op"] == "bns" or (n["op"] in ("conv", "lin") and n.get("bn"))) and not n.get("reuse") and rng.random() < p:
            n["bnaff"] = False
    return arch


def rejected_fusion(arch) -> bool:
    """FeatGraph!RejectedFusion \\/ DoubleFusion: a standalone BatchNorm that the conversion fuses into a searchable layer
    (directly or behind another fused BatchNorm) while its input has another user (plinio raises a ValueError), or after
    a layer object with several call sites, or a second BatchNorm in a row (finding F73, C07's matter)."""
    nodes = arch["nodes"]

    def fused(i):
        n = nodes[i - 1]
        if n["op"] != "bns" or n["ins"][0] == 0:
            return False
        pn = nodes[n["ins"][0] - 1]
        return (pn["op"] in ("conv", "lin") and not pn.get("excl")) or fused(n["ins"][0])

    for i, n in enumerate(nodes, start=1):
        if not fused(i):
            continue
        p = n["ins"][0]
        pn = nodes[p - 1]
        if pn["op"] == "bns":
            return True
        if any(j != i and p in m["ins"] for j, m in enumerate(nodes, start=1)):
            return True
        if pn["op"] in ("conv", "lin"):
            own = pn.get("reuse") or p
            if sum(1 for m in nodes if m["op"] in ("conv", "lin") and (m.get("reuse") or 0) == own) > 0:
                return True
    return False


def random_masks(rng: random.Random, arch, *, time_masks=True, p_prune=0.4, noncausal_time=False) -> Dict[str, Any]:
    """Random alive sets per searchable layer and random abstract time masks per stride-1 Conv1d."""
    sh = shapes(arch)
    alive, tm = {}, {}
    for i, nd in enumerate(arch["nodes"], start=1):
        if nd["op"] not in ("conv", "lin") or nd["excl"] or nd["reuse"]:
            continue
        w = sh[i]["ch"]
        alive[str(i)] = sorted({c for c in range(1, w + 1) if rng.random() > p_prune} | {w})
        if time_masks and arch["dim"] == 1 and nd["op"] == "conv" and nd["s"] == 1 and \
                (nd["causal"] or (noncausal_time and nd.get("sym"))):
            K = nd["k"]
            G = max((K - 1).bit_length(), 1)
            mode = rng.random()
            if mode < 0.5:      # suffix x comb pattern
                cut = rng.randrange(K)
                lev = rng.randrange(G)
                tm[str(i)] = {"b": [10 if j >= cut else 0 for j in range(K)], "g": [10 if j >= lev else 0 for j in range(G)]}
            elif mode < 0.8:    # arbitrary abstract values
                tm[str(i)] = {"b": [rng.choice(V) for _ in range(K)], "g": [rng.choice(V) for _ in range(G)]}
    return {"alive": alive, "tm": tm}
