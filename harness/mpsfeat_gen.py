"""MPS half of C09 / last sentence of C05: build a real plinio MPS model (PER_CHANNEL search with the pruning precision 0)
from an abstract architecture (archgen.GrammarNet, 1-D and 2-D, with concat / exclusions), write a per-channel
precision selection into the raw coefficients, and record what the library reports, charges and exports.

Scenario (JSON):
  {"arch": <archgen arch>, "cfg": {"wt": "pc"|"pl", "pw": [..], "pa": [..]},
   "dead": {node: [1-based channels whose weight precision is to become 0]}   (written through THAT layer's quantiser,
           first write wins on a shared quantiser object; layers that are not named keep all channels alive),
   "f": [[key layer, [alive channels]], ...] | None     (replayed MPSFeatMC states: the assignment TLC chose; `dead` is then
           given for the key layers only - the sharing inside a component is the library's business),
   "mode": "eval"|"hard", "seed": int, "variant": bool (prune one more channel afterwards), "check_mask": bool, "export": bool}

Trace: see specs/MPSFeatTrace.tla.  All numbers are integers < 2^31 (feature counts and costs x1000).
The harness never decides a verdict: every comparison is made by TLC in MPSFeatTrace.
"""
from __future__ import annotations

import os
import random
from concurrent.futures import ProcessPoolExecutor
from typing import Any, Dict, List, Optional

from . import tlc
from .archgen import GrammarNet, exclude_names, input_shape, norm_arch, shapes
from .mps_gen import _alpha_for, _argmax_bits, _write

LIMIT = 2 ** 31 - 1


# ------------------------------------------------------------------ parallel execution
def _init_worker():
    import torch
    torch.set_num_threads(1)


def _run_one(sc):
    from .core import use_repo
    use_repo()
    try:
        return run(sc)
    except tlc.MachineryError:
        raise
    except Exception:      # a crash of the harness itself: never a verdict, always a machinery failure
        import json
        import traceback
        raise tlc.MachineryError("harness crashed on scenario " + json.dumps(sc, default=str)[:3000] + "\n"
                                 + traceback.format_exc(limit=8)) from None


def run_scenarios(scs: List[Dict[str, Any]], procs: int = 0) -> List[Dict[str, Any]]:
    if not scs:
        return []
    procs = procs or min(8, max(1, (os.cpu_count() or 4) - 2))
    if len(scs) < 8 or procs == 1:
        _init_worker()
        return [_run_one(s) for s in scs]
    import multiprocessing as mp
    ctx = mp.get_context("fork")
    with ProcessPoolExecutor(max_workers=procs, mp_context=ctx, initializer=_init_worker) as ex:
        return list(ex.map(_run_one, scs, chunksize=max(1, len(scs) // (procs * 8))))


# ------------------------------------------------------------------ model construction
def _randomize(net, gen) -> None:
    """Generic weights / biases / BN statistics (nothing is zero by accident)."""
    import torch
    import torch.nn as nn
    with torch.no_grad():
        for m in net.modules():
            if isinstance(m, (nn.Conv1d, nn.Conv2d, nn.Linear)):
                fan = m.weight[0].numel()
                w = (torch.rand(m.weight.shape, generator=gen) * 1.6 + 0.2) * (torch.randint(0, 2, m.weight.shape, generator=gen) * 2 - 1)
                m.weight.copy_(w * (1.4 / fan ** 0.5))
                if m.bias is not None:
                    m.bias.copy_(torch.rand(m.bias.shape, generator=gen) * 0.9 + 0.15)
            elif isinstance(m, (nn.BatchNorm1d, nn.BatchNorm2d)):
                m.weight.copy_(torch.rand(m.weight.shape, generator=gen) + 0.5)
                m.bias.copy_(torch.rand(m.bias.shape, generator=gen) * 0.8 + 0.1)
                m.running_mean.copy_(torch.rand(m.running_mean.shape, generator=gen) - 0.5)
                m.running_var.copy_(torch.rand(m.running_var.shape, generator=gen) + 0.5)


class _Tagged:
    """Cost specifications whose functions know which architecture node they are evaluated for
    (by the identity of the weight parameter found in the layer description they are shown)."""

    def __init__(self):
        self.by_weight: Dict[int, int] = {}

    def node_of(self, spec) -> int:
        w = spec.get("_parameters", {}).get("weight")
        return self.by_weight.get(id(w), -1)


class Probe(_Tagged):
    """Records what every cost function is shown; returns 1."""

    def __init__(self):
        super().__init__()
        import torch
        import torch.nn as nn
        from plinio.cost import CostSpec
        self.calls: List[Dict[str, Any]] = []
        self.spec = CostSpec(shared=True, default_behavior="zero")

        def fn(spec):
            rec = {"node": self.node_of(spec), "keys": {}}
            for k in ("in_channels", "out_channels", "in_features", "out_features"):
                if k in spec:
                    rec["keys"][k] = float(spec[k])
            self.calls.append(rec)
            return torch.tensor(1.0)
        for lt in (nn.Conv1d, nn.Conv2d, nn.Linear):
            self.spec[(lt, None)] = fn


class Focus(_Tagged):
    """params_bit restricted to ONE layer (self.node): model cost of this specification = cost of that layer, obtained
    through the public MPS.get_cost path (layer.get_cost, coefficient weighting, reduction)."""

    def __init__(self):
        super().__init__()
        import torch.nn as nn
        import plinio.cost as pc
        from plinio.cost import CostSpec
        self.node = -1
        self.spec = CostSpec(shared=True, default_behavior="zero")
        for lt in (nn.Conv1d, nn.Conv2d, nn.Linear):
            for constr, real in pc.params_bit.data.get(lt, []):
                self.spec[(lt, constr)] = self._wrap(real)

    def _wrap(self, real):
        def fn(spec):
            v = real(spec)
            return v if self.node_of(spec) == self.node else v * 0
        return fn


def build(sc) -> Dict[str, Any]:
    import torch
    from plinio.methods import MPS
    from plinio.methods.mps import get_default_qinfo, MPSType
    from plinio.methods.mps.nn import MPSConv1d, MPSConv2d, MPSLinear
    import plinio.cost as pc
    arch = norm_arch(sc["arch"])
    cfg = sc["cfg"]
    gen = torch.Generator().manual_seed(1000 + sc.get("seed", 0))
    net = GrammarNet(arch)
    _randomize(net, gen)
    net.eval()
    qinfo = get_default_qinfo(w_precision=tuple(cfg["pw"]), a_precision=tuple(cfg.get("pa", [4, 8])))
    probe, focus = Probe(), Focus()
    cost = {"params_bit": pc.params_bit, "probe": probe.spec, "focus": focus.spec}
    m = MPS(net, cost=cost, input_shape=input_shape(arch),
            w_search_type=MPSType.PER_CHANNEL if cfg["wt"] == "pc" else MPSType.PER_LAYER,
            qinfo=qinfo, exclude_names=tuple(exclude_names(arch)), hard_softmax=(sc.get("mode") == "hard"))
    recs: Dict[int, Dict[str, Any]] = {}
    for lname, _, layer in m._unique_leaf_modules:
        if isinstance(layer, (MPSConv1d, MPSConv2d, MPSLinear)):
            if not lname.startswith("layers.n"):
                raise tlc.MachineryError(f"unexpected MPS layer {lname}")
            idx = int(lname[len("layers.n"):])
            recs[idx] = {"name": lname, "layer": layer}
    for n, r in recs.items():
        probe.by_weight[id(r["layer"].weight)] = n
        focus.by_weight[id(r["layer"].weight)] = n
    return {"m": m, "recs": recs, "probe": probe, "focus": focus, "arch": arch}


# ------------------------------------------------------------------ one scenario
def _milli(x: float) -> int:
    v = round(float(x) * 1000)
    if abs(v) > LIMIT // 8:
        raise tlc.MachineryError("value does not fit the 32-bit budget of the trace (x1000 x channels); use a smaller architecture")
    return int(v)


def _err(e: Exception) -> str:
    return f"{type(e).__name__}: {e}"[:200]


def _write_cols(q, dead0: List[int], rng: random.Random) -> None:
    """Per-channel winners: 0 bit for the channels in dead0 (0-based), a random non-zero precision for the others."""
    prec = [int(p) for p in q.precision.tolist()]
    zi = prec.index(0) if 0 in prec else None
    nonzero = [i for i, p in enumerate(prec) if p != 0]
    ncols = q.alpha.shape[1]
    winners = [zi if (c in dead0 and zi is not None) else rng.choice(nonzero) for c in range(ncols)]
    _write(q, winners, rng)


def _forward(m, mode, xs, recs):
    """Forward in the requested mode; returns (outputs, per layer: does channel c of its output carry a non-zero)."""
    import torch
    nz: Dict[int, List[int]] = {}
    hooks = []

    def mk(n):
        def h(mod, i, o):       # returns None: never replaces the output
            flat = o.detach().transpose(0, 1).reshape(o.shape[1], -1)
            cur = (flat.abs().amax(dim=1) > 0).int().tolist()
            nz[n] = [int(a or b) for a, b in zip(nz.get(n, [0] * len(cur)), cur)]
        return h
    for n, r in recs.items():
        hooks.append(r["layer"].register_forward_hook(mk(n)))
    try:
        if mode == "hard":
            m.train()
        else:
            m.eval()
        with torch.no_grad():
            ys = [m(x) for x in xs]
    finally:
        for h in hooks:
            h.remove()
    return ys, nz


def _expand(w, cout) -> List[int]:
    if isinstance(w, (list, tuple)):
        return [int(x) for x in w]
    return [int(w)] * cout


def _layer_costs(m, focus, recs) -> Dict[int, Any]:
    out = {}
    for n in sorted(recs):
        focus.node = n
        try:
            c = float(m.get_cost("focus"))
            out[n] = (_milli(c), c == c and abs(c) != float("inf"))
        except tlc.MachineryError:
            raise
        except Exception:
            out[n] = (0, False)
    focus.node = -1
    return out


def run(sc: Dict[str, Any]) -> Dict[str, Any]:
    """Execute one scenario (torch.fx prints a report to stderr whenever a traced module raises: kept out of the log)."""
    import contextlib
    import io
    with contextlib.redirect_stderr(io.StringIO()):
        return _run(sc)


def _run(sc: Dict[str, Any]) -> Dict[str, Any]:
    import torch
    from plinio.methods.mps.quant.nn import QuantList
    arch = norm_arch(sc["arch"])
    cfg = {"wt": sc["cfg"]["wt"], "pw": [int(p) for p in sc["cfg"]["pw"]]}
    f = sc.get("f")
    t: Dict[str, Any] = {
        "arch": arch, "cfg": cfg, "mode": sc.get("mode", "eval"), "build_ok": True, "build_err": "", "fwd_ok": True, "fwd_err": "",
        "has_f": f is not None, "f": [{"k": int(k), "alive": [int(c) for c in al]} for k, al in (f or [])],
        "L": [], "cost_ok": False, "cost_pb": 0, "check_mask": bool(sc.get("check_mask", False)),
        "V": {"done": False, "p": 0, "c": 0, "L": []},
        "E": {"done": False, "ok": False, "err": "", "err_class": "", "run_ok": False, "shape_ok": False, "equal": False,
              "diff_e6": 0, "L": []}}
    try:
        B = build(sc)
    except tlc.MachineryError:
        raise
    except Exception as e:      # the library refused / crashed on the architecture: decided by the trace spec
        t["build_ok"] = False
        t["build_err"] = _err(e)
        return t
    m, recs, probe, focus = B["m"], B["recs"], B["probe"], B["focus"]
    sh = shapes(arch)
    rng = random.Random(sc.get("seed", 0) * 7919 + 17)
    # ---- write the selection
    dead = {int(k): [int(c) for c in v] for k, v in (sc.get("dead") or {}).items()}
    written = set()
    for n in sorted(recs):
        q = recs[n]["layer"].w_mps_quantizer
        if id(q) in written:
            continue
        if q.alpha.dim() == 2:
            if f is not None and n not in dead:
                continue            # replayed state: only the key layers are written
            written.add(id(q))
            _write_cols(q, [c - 1 for c in dead.get(n, [])], rng)
        else:
            written.add(id(q))
            _write(q, rng.randrange(q.alpha.shape[0]), rng)
    # per-channel quantisers that were not written (members of a component written through its key): nothing to do;
    # in replayed states a quantiser the MODEL thinks is shared but is not keeps its initial (all alive) selection
    if f is not None:
        for n in sorted(recs):
            q = recs[n]["layer"].w_mps_quantizer
            if q.alpha.dim() == 2 and id(q) not in written:
                written.add(id(q))
                _write_cols(q, [], rng)
    gen = torch.Generator().manual_seed(sc.get("seed", 0) + 5)
    xs = [torch.rand((3,) + input_shape(arch), generator=gen) * 1.5 - 0.2,
          torch.rand((2,) + input_shape(arch), generator=gen) * 4.0 - 1.0]
    try:
        ys, nz = _forward(m, t["mode"], xs, recs)
    except Exception as e:
        t["fwd_ok"] = False
        t["fwd_err"] = _err(e)
        return t
    # ---- observations per searchable layer
    summ = m.summary()
    qids: Dict[int, int] = {}
    probe.calls.clear()
    try:
        m.get_cost("probe")
    except Exception as e:
        t["probe_err"] = _err(e)
    shown: Dict[int, List[Dict[str, Any]]] = {}
    for c in probe.calls:
        shown.setdefault(c["node"], []).append(c)
    lcs = _layer_costs(m, focus, recs)
    try:
        c = float(m.get_cost("params_bit"))
        t["cost_ok"] = bool(c == c and abs(c) != float("inf"))
        t["cost_pb"] = _milli(c) if t["cost_ok"] else 0
    except tlc.MachineryError:
        raise
    except Exception:
        t["cost_ok"] = False

    def observe_w(n):
        lay = recs[n]["layer"]
        cout = sh[n]["ch"]
        s = summ.get(recs[n]["name"])
        try:
            return _expand(s["w_precision"], cout), True
        except (KeyError, TypeError, ValueError):
            return [], False

    for n in sorted(recs):
        lay = recs[n]["layer"]
        q = lay.w_mps_quantizer
        cout = sh[n]["ch"]
        kind = arch["nodes"][n - 1]["op"]
        rec: Dict[str, Any] = {"n": n, "kind": kind, "dw": bool(arch["nodes"][n - 1]["dw"]),
                               "cand_w": [int(p) for p in q.precision.tolist()], "qid_w": qids.setdefault(id(q), len(qids) + 1),
                               "qw": int(q.alpha.shape[1]) if q.alpha.dim() == 2 else 0}
        rec["su_w"], rec["su_ok"] = observe_w(n)
        aw = _argmax_bits(q)
        rec["am_w"] = aw * cout if q.alpha.dim() == 1 else aw
        try:
            rec["fm"] = [int(round(float(v))) for v in q.features_mask.tolist()] if q.alpha.dim() == 2 else []
        except Exception:
            rec["fm"] = []
        try:
            rec["oe"], rec["oe_ok"] = _milli(float(torch.as_tensor(lay.out_features_eff).detach())), True
        except tlc.MachineryError:
            raise
        except Exception:
            rec["oe"], rec["oe_ok"] = 0, False
        try:
            rec["told"], rec["told_ok"], rec["told_err"] = _milli(float(lay.input_features_calculator.features.detach())), True, ""
        except tlc.MachineryError:
            raise
        except Exception as e:
            rec["told"], rec["told_ok"], rec["told_err"] = 0, False, _err(e)
        try:
            rec["tm"] = [int(round(float(v))) for v in lay.input_features_calculator.features_mask.tolist()]
            rec["tm_ok"], rec["tm_err"] = True, ""
        except Exception as e:
            rec["tm"], rec["tm_ok"], rec["tm_err"] = [], False, type(e).__name__
        calls = shown.get(n, [])
        own = ("in_features", "out_features") if kind == "lin" else ("in_channels", "out_channels")
        other = ("in_channels", "out_channels") if kind == "lin" else ("in_features", "out_features")
        vals = set()
        names_ok = True
        for c in calls:
            if own[0] in c["keys"] and own[1] in c["keys"] and not any(k in c["keys"] for k in other):
                vals.add((_milli(c["keys"][own[0]]), _milli(c["keys"][own[1]])))
            else:
                names_ok = False
        rec["pr_n"] = len(calls)
        rec["pr_names_ok"] = bool(names_ok and len(vals) == 1)
        rec["pr_in"], rec["pr_out"] = (vals.pop() if len(vals) == 1 else (0, 0))
        rec["nz"] = nz.get(n, [])
        rec["lc"], rec["lc_ok"] = lcs[n]
        if abs(rec["lc"]) * max(cout, 1) > LIMIT // 2:
            raise tlc.MachineryError("layer cost x channels does not fit 32 bits; use a smaller architecture")
        t["L"].append(rec)
    # ---- export (of the base selection) and a run of the exported network
    if sc.get("export", True):
        E = t["E"]
        E["done"] = True
        try:
            ex = m.export()
            ex.eval()
            E["ok"] = True
        except Exception as e:
            ex = None
            E["err"], E["err_class"] = _err(e), type(e).__name__
        if ex is not None:
            try:
                m.eval()
                with torch.no_grad():
                    yev = [m(x) for x in xs]
                    yex = [ex(x) for x in xs]
                E["run_ok"] = True
                E["shape_ok"] = all(a.shape == b.shape for a, b in zip(yev, yex))
                if E["shape_ok"]:
                    E["equal"] = all(torch.equal(a, b) for a, b in zip(yev, yex))
                    E["diff_e6"] = int(min(max(float((a - b).abs().max()) for a, b in zip(yev, yex)) * 1e6, 2e9))
            except Exception as e:
                E["err"], E["err_class"] = _err(e), type(e).__name__
            exmods = dict(ex.named_modules())
            for n in sorted(recs):
                e_ = exmods.get(recs[n]["name"])
                if e_ is None:
                    continue
                parts = list(e_) if isinstance(e_, QuantList) else [e_]
                plist = []
                for p in parts:
                    try:
                        plist.append({"prec": int(p.w_quantizer.precision),
                                      "in": int(getattr(p, "in_channels", getattr(p, "in_features", -1))),
                                      "out": int(getattr(p, "out_channels", getattr(p, "out_features", -1))),
                                      "groups": int(getattr(p, "groups", 1))})
                    except (AttributeError, TypeError, ValueError):
                        plist.append({"prec": -7, "in": -1, "out": -1, "groups": -1})
                E["L"].append({"n": n, "type": type(e_).__name__, "parts": plist})
    # ---- C05, last sentence: prune one more channel of one layer, observe every layer's cost again
    if sc.get("variant", False) and all(r["su_ok"] for r in t["L"]):
        cands = [(r["n"], c) for r in t["L"] if 0 in r["cand_w"] and recs[r["n"]]["layer"].w_mps_quantizer.alpha.dim() == 2
                 for c, b in enumerate(r["su_w"]) if b != 0 and c < recs[r["n"]]["layer"].w_mps_quantizer.alpha.shape[1]]
        if cands:
            p, c0 = cands[rng.randrange(len(cands))]
            q = recs[p]["layer"].w_mps_quantizer
            zi = [int(x) for x in q.precision.tolist()].index(0)
            with torch.no_grad():
                q.alpha[:, c0] = torch.tensor(_alpha_for(q.alpha.shape[0], zi, rng), dtype=torch.float32)
            try:
                _forward(m, t["mode"], xs[:1], recs)
                summ = m.summary()
                lc2 = _layer_costs(m, focus, recs)
                VL = []
                for n in sorted(recs):
                    w, ok = observe_w(n)
                    VL.append({"n": n, "su_w": w if ok else [], "lc": lc2[n][0] if lc2[n][1] else -1})
                t["V"] = {"done": True, "p": p, "c": c0 + 1, "L": VL}
            except tlc.MachineryError:
                raise
            except Exception as e:
                t["V"] = {"done": False, "p": p, "c": c0 + 1, "L": [], "err": _err(e)}
    return t


# ------------------------------------------------------------------ scenario sources
def scenario_from_state(st: Dict[str, Any], **opts) -> Dict[str, Any]:
    """A 'masked' state of MPSFeatMC (parsed TLC dump) -> scenario.  f is keyed by the smallest searchable layer of every
    prunable component; the pattern is written through that layer only."""
    from .pitgen import arch_from_tla, fun_items
    arch = arch_from_tla(st["arch"])
    sh = shapes(arch)
    f = [(int(k), sorted(int(c) for c in v)) for k, v in fun_items(st["f"])]
    dead = {str(k): [c for c in range(1, sh[k]["ch"] + 1) if c not in al] for k, al in f}
    sc = {"arch": arch, "cfg": {"wt": "pc", "pw": [0, 2, 8], "pa": [4, 8]}, "dead": dead, "f": [[k, al] for k, al in f]}
    sc.update(opts)
    return sc


PW_PRUNE = [[0, 2, 8], [4, 0], [0, 8, 4, 2], [2, 0, 4], [0, 8]]


def random_scenario(rng: random.Random, *, max_nodes: int = 8, findings: bool = True, p_single_width: float = 0.8) -> Dict[str, Any]:
    """Seeded random architecture (grammar of pitgen.random_arch without layer reuse and sigmoid: 1-D and 2-D, concat,
    exclusions) with a random per-channel pruning pattern; a few control scenarios where nothing can be pruned."""
    from . import pitgen
    want_single = rng.random() < p_single_width      # most scenarios: one width per sharing component (see mixed_width_hint)
    for _ in range(400):
        dim = rng.choice([1, 2, 2])
        arch = pitgen.random_arch(rng, dim=dim, max_nodes=rng.randint(2, max_nodes), widths=(2, 3, 4, 6), kernels=(1, 2, 3, 5),
                                  allow_excl=findings and rng.random() < 0.4, reuse=False, nonzero_ops=False)
        sh = shapes(arch)
        layers = [i for i, nd in enumerate(arch["nodes"], start=1) if nd["op"] in ("conv", "lin") and not nd["excl"]]
        if not layers:
            continue
        if any(sh[i]["ch"] * (sh[nd["ins"][0]]["ch"]) * nd["k"] ** dim > 4000 for i, nd in enumerate(arch["nodes"], start=1)
               if nd["op"] in ("conv", "lin")):
            continue
        for nd in arch["nodes"]:
            if nd["op"] == "conv" and nd["dw"] and nd["excl"]:
                nd["bias"] = True
            if dim == 1:
                nd["bn"] = False        # MPS folds BatchNorm for Conv2d / Linear only (documented TODO)
        if want_single and mixed_width_hint(arch):
            continue
        break
    r = rng.random()
    if r < 0.85:
        cfg = {"wt": "pc", "pw": rng.choice(PW_PRUNE), "pa": rng.choice([[4, 8], [8], [2, 4, 8]])}
    elif r < 0.93:
        cfg = {"wt": "pc", "pw": rng.choice([[2, 4, 8], [8, 4]]), "pa": [4, 8]}
    else:
        cfg = {"wt": "pl", "pw": rng.choice([[2, 8], [4], [8, 4, 2]]), "pa": [4, 8]}
    p = rng.choice([0.2, 0.5, 0.8])
    dead = {str(i): [c for c in range(1, sh[i]["ch"] + 1) if rng.random() < p] for i in layers}
    return {"arch": arch, "cfg": cfg, "dead": dead, "f": None, "mode": "hard" if rng.random() < 0.25 else "eval",
            "seed": rng.randrange(10 ** 6), "variant": True, "check_mask": False, "export": True}


def mixed_width_hint(arch) -> bool:
    """Mirror of MPSFeat!KF_MPSMixedWidth, used ONLY to steer the random generator (never for a verdict): does some
    sharing component of build_shared_mps_qtz_map (dataflow edges minus those entering a features-defining node; concat
    is not cut) hold a searchable layer whose width differs from a width the shared coefficient matrix may be created with."""
    arch = norm_arch(arch)
    nodes = arch["nodes"]
    n = len(nodes)
    sh = shapes(arch)
    par = list(range(n + 2))

    def find(x):
        while par[x] != x:
            par[x] = par[par[x]]
            x = par[x]
        return x

    def defining(i):
        return i == 0 or (nodes[i - 1]["op"] in ("conv", "lin") and not nodes[i - 1]["dw"])
    for i, nd in enumerate(nodes, start=1):
        if not defining(i):
            for p in nd["ins"]:
                par[find(p)] = find(i)
    par[find(n)] = find(n + 1)
    widths: Dict[int, set] = {}
    for i in range(n + 1):
        if defining(i):
            widths.setdefault(find(i), set()).add(sh[i]["ch"])
    widths[find(n + 1)] = {sh[n]["ch"]}
    for i, nd in enumerate(nodes, start=1):
        if nd["op"] in ("conv", "lin") and not nd["excl"]:
            if any(w != sh[i]["ch"] for w in widths.get(find(i), set())):
                return True
    return False
