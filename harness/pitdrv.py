"""Driver / projections for PIT scenarios built from abstract architectures (specs/FeatGraph.tla).

All observation helpers are written so that they do not disturb the model under observation
(they work on deep copies where they have to write something).
"""
from __future__ import annotations

import copy
import warnings
from typing import Any, Dict, List, Optional

import torch
import torch.nn as nn

from .archgen import GrammarNet, exclude_names, input_shape, lname, norm_arch, randomize, shapes

BIGVAL = 1e30


def build(arch: Dict[str, Any], *, fold_bn: bool = False, seed: int = 0, train_mode: bool = False,
          cost=None, discrete_cost: bool = True, full_cost: bool = False, variant: str = "auto", example_batch: int = 0):
    """float64 GrammarNet + PIT wrapper.  Returns (original net (untouched copy), pit, x)."""
    from plinio.methods import PIT
    arch = norm_arch(arch)
    torch.set_default_dtype(torch.float64)
    gen = torch.Generator().manual_seed(seed)
    net = GrammarNet(arch)
    randomize(net, gen)
    net.train(train_mode)
    ref = copy.deepcopy(net)
    x = torch.rand((3,) + input_shape(arch), generator=gen) * 2 - 0.5
    kw = {}
    if cost is not None:
        kw["cost"] = cost
    excl = exclude_names(arch)
    if variant == "manual":
        manual_place(net, arch, fold_bn)
        kw["autoconvert_layers"] = False
        excl = []
    elif variant == "types" and excl:
        # exclusion by TYPE instead of by name, possible when the excluded layers are exactly the layers of a type
        kinds = {}
        for i, n in enumerate(arch["nodes"], start=1):
            if n["op"] in ("conv", "lin") and not n["reuse"]:
                kinds.setdefault(n["op"], []).append(bool(n["excl"]))
        types = []
        if all(kinds.get("lin", [False])) and not any(kinds.get("conv", [False])):
            types = [nn.Linear]
        elif all(kinds.get("conv", [False])) and not any(kinds.get("lin", [False])):
            types = [nn.Conv1d if arch["dim"] == 1 else nn.Conv2d]
        if types:
            kw["exclude_types"] = tuple(types)
            excl = []
    with warnings.catch_warnings():
        warnings.simplefilter("ignore")
        if example_batch > 0:
            # the user traces with a real mini-batch instead of a shape: every cost is per inference all the same
            xe = torch.rand((example_batch,) + input_shape(arch), generator=gen) * 2 - 0.5
            pit = PIT(net, input_example=xe, fold_bn=fold_bn, exclude_names=excl,
                      discrete_cost=discrete_cost, full_cost=full_cost, **kw)
        else:
            pit = PIT(net, input_shape=input_shape(arch), fold_bn=fold_bn, exclude_names=excl,
                      discrete_cost=discrete_cost, full_cost=full_cost, **kw)
    return ref, pit, x


def manual_place(net, arch, fold_bn: bool) -> None:
    """autoconvert off: the USER replaces the layers by PIT layers (one masker per sharing group, frozen for groups
    tied to the network input / output) and PIT(..., autoconvert_layers=False) only imports them."""
    from plinio.methods.pit.nn import PITConv1d, PITConv2d, PITLinear
    from plinio.methods.pit.nn.features_masker import PITFeaturesMasker, PITFrozenFeaturesMasker
    from plinio.methods.pit.nn.timestep_masker import PITTimestepMasker, PITFrozenTimestepMasker
    from plinio.methods.pit.nn.dilation_masker import PITDilationMasker, PITFrozenDilationMasker
    from .pitgen import comp_reps
    reps = comp_reps(arch, with_frozen=True)
    sh = shapes(arch)
    maskers = {}
    # standalone BatchNorm layers: the user wraps them too (their exported size follows the channels pruned upstream)
    from plinio.methods.pit.nn.batchnorm_1d import PITBatchNorm1d
    from plinio.methods.pit.nn.batchnorm_2d import PITBatchNorm2d
    for i, n in enumerate(arch["nodes"], start=1):
        if n["op"] == "bns":
            old = net.layers[lname(i)]
            net.layers[lname(i)] = (PITBatchNorm2d if isinstance(old, nn.BatchNorm2d) else PITBatchNorm1d)(old)
    for i, n in enumerate(arch["nodes"], start=1):
        if n["op"] not in ("conv", "lin") or n["excl"] or n["reuse"]:
            continue
        rep, frozen, has_def = reps[i]
        # a layer object called at several sites: its width is fixed as soon as ONE of them is tied to the input / output
        sites_ = [j for j, m_ in enumerate(arch["nodes"], start=1) if m_["op"] in ("conv", "lin") and m_["reuse"] == i]
        if not frozen and any(reps[j][1] for j in sites_):
            rep, frozen = ("frozen-site", i), True
        if rep not in maskers:
            w = sh[i]["ch"]
            # the user may ask for more than one keep-alive channel
            ka = 2 if (w >= 3 and (rep + w) % 3 == 0) else 1
            maskers[rep] = PITFrozenFeaturesMasker(w) if frozen else PITFeaturesMasker(w, keep_alive_channels=ka)
        fm = maskers[rep]
        old = net.layers[lname(i)]
        if isinstance(old, nn.Conv1d):
            k = old.kernel_size[0]
            st = old.stride[0]
            new = PITConv1d(old, out_features_masker=fm,
                            timestep_masker=PITFrozenTimestepMasker(k) if st != 1 else PITTimestepMasker(k),
                            dilation_masker=PITFrozenDilationMasker(k) if st != 1 else PITDilationMasker(k), fold_bn=fold_bn)
        elif isinstance(old, nn.Conv2d):
            new = PITConv2d(old, out_features_masker=fm, fold_bn=fold_bn)
        else:
            new = PITLinear(old, out_features_masker=fm, fold_bn=fold_bn)
        net.layers[lname(i)] = new


def layer(pit, i: int):
    return pit.seed.get_submodule("layers." + lname(i))


def searchable_nodes(arch) -> List[int]:
    return [i for i, n in enumerate(arch["nodes"], start=1) if n["op"] in ("conv", "lin") and not n["excl"]]


def owner(arch, i: int) -> int:
    """Node whose module object implements node i (layer reuse)."""
    r = arch["nodes"][i - 1].get("reuse", 0)
    return r if r else i


# ----------------------------------------------------------------------------------- writing masks
def set_alpha(pit, i: int, values: List[float]) -> None:
    m = layer(pit, i).out_features_masker
    with torch.no_grad():
        m.alpha.copy_(torch.tensor(values, dtype=m.alpha.dtype))


def set_alive(pit, i: int, alive: List[int], width: int) -> None:
    """alive: 1-based channel indices to keep; every other alpha is set to 0."""
    set_alpha(pit, i, [1.0 if (c + 1) in alive else 0.0 for c in range(width)])


def set_beta_gamma(pit, i: int, beta: Optional[List[float]], gamma: Optional[List[float]]) -> None:
    ly = layer(pit, i)
    with torch.no_grad():
        if beta is not None:
            ly.timestep_masker.beta.copy_(torch.tensor(beta, dtype=ly.timestep_masker.beta.dtype))
        if gamma is not None:
            ly.dilation_masker.gamma.copy_(torch.tensor(gamma, dtype=ly.dilation_masker.gamma.dtype))


# ----------------------------------------------------------------------------------- projections
def bits(t) -> List[int]:
    return [int(v) for v in (t.detach().flatten() > 0.5).tolist()]


def observe_layers(pit, arch) -> Dict[str, Any]:
    """Per searchable call site: own mask, mask it is told about its input, summary()."""
    out = {}
    try:
        summ = pit.summary()
    except Exception:
        summ = {}
        for i in searchable_nodes(arch):       # summary() of the whole model raised: ask layer by layer
            try:
                summ["layers." + lname(owner(arch, i))] = layer(pit, owner(arch, i)).summary()
            except Exception:
                pass
    for i in searchable_nodes(arch):
        o = owner(arch, i)
        ly = layer(pit, o)
        rec: Dict[str, Any] = {"node": i, "owner": o}
        try:
            rec["mask"] = bits(ly.features_mask)
        except Exception as e:  # e.g. no masker (finding F19)
            rec["mask"] = []
            rec["mask_err"] = type(e).__name__
        try:
            rec["told"] = bits(ly.input_features_calculator.features_mask)
            rec["told_n"] = int(round(float(ly.input_features_calculator.features)))
        except Exception as e:
            rec["told"] = []
            rec["told_n"] = -1
            rec["told_err"] = type(e).__name__
        s = summ.get("layers." + lname(o), {})
        rec["sum_in"] = int(s.get("in_features", -1))
        rec["sum_out"] = int(s.get("out_features", -1))
        if "kernel_size" in s:
            rec["sum_k"] = int(s["kernel_size"][0])
            rec["sum_dil"] = int(s["dilation"][0])
            rec["tmask"] = bits(ly.time_mask)
        elif hasattr(ly, "time_mask"):
            try:
                rec["tmask"] = bits(ly.time_mask)
                rec["sum_k"], rec["sum_dil"] = -1, -1
            except Exception:
                pass
        out[str(i)] = rec
    return out


def actual_zero_patterns(pit, arch, x) -> Dict[str, List[int]]:
    """For every tensor of the masked network: 1 where the channel is NOT identically zero on x.
    Observed with forward hooks on a deep copy in eval mode (hooks return None)."""
    m = copy.deepcopy(pit).eval()
    net = m.seed
    sh = shapes(arch)
    rec: Dict[str, List[int]] = {}
    # run the node list by hand on the fx module is not possible; use hooks on leaf modules + recompute
    # functional nodes (add / cat) from their operands' patterns is the model's job.  We record the
    # OUTPUT pattern of every leaf module call and the INPUT pattern of every searchable layer.
    handles = []
    calls: Dict[str, List[Any]] = {}

    def mk(name):
        def hook(mod, inp, outp):
            t = inp[0]
            calls.setdefault(name, []).append((
                [int(v) for v in (t.detach().abs().amax(dim=tuple(d for d in range(t.dim()) if d != 1)) > 0).tolist()],
                [int(v) for v in (outp.detach().abs().amax(dim=tuple(d for d in range(outp.dim()) if d != 1)) > 0).tolist()]))
            return None
        return hook
    for name, mod in net.named_modules():
        if name.startswith("layers.") and name.count(".") == 1:
            handles.append(mod.register_forward_hook(mk(name)))
    with torch.no_grad():
        m(x)
    for h in handles:
        h.remove()
    return calls


# ----------------------------------------------------------------------------------- export
def index_encode(pit, arch) -> Any:
    """Deep copy of the PIT model whose searchable weights carry their own index:
    weight[co, ci, tap...] = co*10^7 + ci*10^3 + tap(flattened) + 1 ; bias[co] = co + 1."""
    m = copy.deepcopy(pit)
    for i in searchable_nodes(arch):
        if owner(arch, i) != i:
            continue
        ly = layer(m, i)
        w = ly.weight
        with torch.no_grad():
            co = torch.arange(w.shape[0]).view(-1, *([1] * (w.dim() - 1)))
            ci = torch.arange(w.shape[1]).view(1, -1, *([1] * (w.dim() - 2)))
            tap = torch.arange(int(w[0, 0].numel())).view(1, 1, *w.shape[2:]) if w.dim() > 2 else torch.zeros(1, 1)
            w.copy_((co * 10000000 + ci * 1000 + tap + 1).to(w.dtype))
            if ly.bias is not None:
                ly.bias.copy_((torch.arange(w.shape[0]) + 1).to(w.dtype))
    for i in standalone_bn_nodes(m, arch):          # running_mean[c] = c + 1
        bn = layer(m, i)
        with torch.no_grad():
            bn.running_mean.copy_((torch.arange(bn.num_features) + 1).to(bn.running_mean.dtype))
    return m


def standalone_bn_nodes(pit, arch) -> List[int]:
    """'bns' nodes whose BatchNorm is still a module of its own after the conversion (PIT fuses a BatchNorm that
    directly follows a searchable layer into that layer)."""
    out = []
    for i, n in enumerate(arch["nodes"], start=1):
        if n["op"] != "bns":
            continue
        try:
            m = layer(pit, i)
        except AttributeError:
            continue
        if isinstance(m, (nn.BatchNorm1d, nn.BatchNorm2d)) and any(
                nd.op == "call_module" and nd.target == "layers." + lname(i) for nd in pit.seed.graph.nodes):
            out.append(i)
    return out


def observe_bns(pit, arch) -> List[Dict[str, Any]]:
    """Standalone BatchNorm layers: what summary() reports and the mask export() will slice them with."""
    recs = []
    for i in standalone_bn_nodes(pit, arch):
        m = layer(pit, i)
        rec: Dict[str, Any] = {"n": i, "pit": type(m).__name__.startswith("PIT"), "sum_nf": -1, "told": [], "ok": True}
        try:
            rec["sum_nf"] = int(m.summary().get("num_features", -1))
            rec["told"] = bits(m.input_features_calculator.features_mask)
        except Exception as e:
            rec["ok"] = False
            rec["err"] = type(e).__name__
        recs.append(rec)
    return recs


def decode_bns(exp, pit, arch) -> List[Dict[str, Any]]:
    recs = []
    for i in standalone_bn_nodes(pit, arch):
        try:
            m = exp.get_submodule("layers." + lname(i))
            recs.append({"n": i, "nf": int(m.num_features),
                         "idx": [int(round(float(v))) - 1 for v in m.running_mean.detach().tolist()]})
        except Exception:
            recs.append({"n": i, "nf": -1, "idx": []})
    return recs


def decode_export(exp, arch) -> Dict[str, Any]:
    """Read the surviving original indices off the weights of an exported index-encoded model."""
    out = {}
    for i in searchable_nodes(arch):
        if owner(arch, i) != i:
            continue
        ly = exp.get_submodule("layers." + lname(i))
        w = ly.weight.detach()
        v = (w - 1).round().long()
        co = (v // 10000000)
        ci = (v // 1000) % 10000
        tap = v % 1000
        rec: Dict[str, Any] = {}
        rec["out_idx"] = [int(c) for c in co.reshape(co.shape[0], -1)[:, 0].tolist()]
        rec["in_idx"] = [int(c) for c in ci[0].reshape(ci.shape[1], -1)[:, 0].tolist()]
        rec["taps"] = [int(c) for c in tap[0, 0].flatten().tolist()] if w.dim() > 2 else [0]
        # rectangular consistency: every element must decode to (out_idx[a], in_idx[b], taps[c])
        ok = True
        for a in range(w.shape[0]):
            if not ok:
                break
            for b in range(w.shape[1]):
                if int(co[a, b].flatten()[0]) != rec["out_idx"][a] or int(ci[a, b].flatten()[0]) != rec["in_idx"][b] \
                        or [int(c) for c in tap[a, b].flatten().tolist()] != rec["taps"] if w.dim() > 2 else False:
                    ok = False
                    break
        rec["rect"] = ok
        if ly.bias is not None:
            rec["bias_idx"] = [int(round(float(b))) - 1 for b in ly.bias.detach().tolist()]
        else:
            rec["bias_idx"] = []
        if isinstance(ly, (nn.Conv1d, nn.Conv2d)):
            rec["in_ch"], rec["out_ch"], rec["groups"] = ly.in_channels, ly.out_channels, ly.groups
            rec["k"] = int(ly.kernel_size[0])
            rec["dil"] = int(ly.dilation[0])
            rec["stride"] = int(ly.stride[0])
        else:
            rec["in_ch"], rec["out_ch"], rec["groups"] = ly.in_features, ly.out_features, 1
            rec["k"], rec["dil"], rec["stride"] = 1, 1, 1
        pad = None
        try:
            # the explicit pad module of the architecture (named so that it cannot collide with the "<layer>_pad" module
            # that export() itself adds in front of an un-padded convolution)
            p = exp.get_submodule("layers." + lname(i) + "_xpad")
            pad = [int(v) for v in p.padding]
        except AttributeError:
            try:
                p = exp.get_submodule("layers." + lname(i) + "_pad")
                pad = [int(v) for v in p.padding]
            except AttributeError:
                pass
        rec["pad"] = pad if pad is not None else []
        out[str(i)] = rec
    return out


def copy_bn_stats(pit, exp, arch) -> None:
    """Give every BatchNorm re-created by export the (sliced) statistics of the BN it replaces."""
    for i in searchable_nodes(arch):
        if owner(arch, i) != i:
            continue
        ly = layer(pit, i)
        bn = getattr(ly, "bn", None)
        if bn is None or getattr(ly, "fold_bn", False):
            continue
        try:
            nb = exp.get_submodule("layers." + lname(i) + "_exported_bn")
        except AttributeError:
            continue
        keep = ly.features_mask.bool()
        with torch.no_grad():
            if bn.affine and nb.affine:
                nb.weight.copy_(bn.weight[keep])
                nb.bias.copy_(bn.bias[keep])
            nb.running_mean.copy_(bn.running_mean[keep])
            nb.running_var.copy_(bn.running_var[keep])


def export_and_compare(pit, arch, x) -> Dict[str, Any]:
    """export() (on a deep copy, so that the scenario object stays as it was), run, compare in float64."""
    res: Dict[str, Any] = {"export_ok": False, "run_ok": False, "shape_ok": False, "out_equal": False, "err": ""}
    m = copy.deepcopy(pit).eval()
    with torch.no_grad():
        y_nas = m(x)
    try:
        with warnings.catch_warnings():
            warnings.simplefilter("ignore")
            exp = m.export()
        res["export_ok"] = True
    except Exception as e:
        res["err"] = f"export: {type(e).__name__}: {str(e)[:120]}"
        return res
    copy_bn_stats(m, exp, arch)
    exp.eval()
    try:
        with torch.no_grad():
            y_exp = exp(x)
        res["run_ok"] = True
    except Exception as e:
        res["err"] = f"run: {type(e).__name__}: {str(e)[:120]}"
        return res
    res["shape_ok"] = tuple(y_exp.shape) == tuple(y_nas.shape)
    if res["shape_ok"]:
        diff = float((y_exp - y_nas).abs().max())
        scale = 1.0 + float(y_nas.abs().max())
        res["out_equal"] = bool(diff <= 1e-9 * scale)
        res["diff_e12"] = int(min(diff / scale * 1e12, 2_000_000_000))
    return res
