"""SuperNet scenario generator / observer for C03 and C06 (and reusable for the SuperNet half of C10).

Abstract network (what SNLife.tla talks about)
    net = {"C": channels, "hw": spatial size, "gumbel": bool, "hard0": bool,
           "single": bool (one CostSpec + `.cost` + cost_specification setter instead of a dict + get_cost),
           "blocks": [{"kinds": [kind, ...], "uses": 1|2, "pool": bool, "nest": bool}, ...]}
    kind in  layer | seq | ubm | ubf | id | ubr
        layer  single nn.Conv2d (variants: 3x3, 1x1, 5x5 without bias, depthwise)
        seq    nn.Sequential (exploded by the tracer)
        ubm    user-defined block whose last operation is a module call
        ubf    user-defined block whose last operation is functional (add / relu / method)
        id     nn.Identity
        ubr    user-defined block that invokes ONE conv layer twice (module tail)
    uses   the block is invoked once or twice in forward; pool = average pooling between the two
           invocations (second call site works at half resolution); nest = the block sits inside an
           nn.Sequential wrapper (qualified names get a prefix).

Real network: stem conv+bn (fixed) -> for each block: block [relu (pool) block] -> 1x1 conv (fixed) ->
head conv (fixed) -> mean -> linear (fixed).  All widths equal C so every branch is shape preserving.

Nothing here imports plinio at module import time (core.use_repo() must run first).
Costs are measured with forward hooks on plain torch modules (numel x output positions), never with
plinio's cost machinery.
"""
from __future__ import annotations

import copy
from typing import Any, Dict, List, Tuple

KINDS = ("layer", "seq", "ubm", "ubf", "id", "ubr")


def _torch():
    import torch
    import torch.nn as nn
    import torch.nn.functional as F
    return torch, nn, F


_CLASSES: Dict[str, Any] = {}


def _classes():
    """User-defined block classes (created lazily so that torch is imported after use_repo())."""
    if _CLASSES:
        return _CLASSES
    torch, nn, F = _torch()

    class UBModTail(nn.Module):               # conv1 -> relu (functional) -> conv2 (module tail)
        def __init__(self, C, k1, k2, bias):
            super().__init__()
            self.conv1 = nn.Conv2d(C, C, k1, padding='same', bias=bias)
            self.conv2 = nn.Conv2d(C, C, k2, padding='same')

        def forward(self, x):
            return self.conv2(F.relu(self.conv1(x)))

    class UBNested(nn.Module):                # two nested user blocks; tail is a module two levels down
        def __init__(self, C, k1, k2, bias):
            super().__init__()
            self.c1 = UBModTail(C, k1, 1, bias)
            self.c2 = UBModTail(C, 1, k2, True)

        def forward(self, x):
            return self.c2(torch.tanh(self.c1(x)))

    class UBSkip(nn.Module):                  # two data paths inside the block: conv2(x + relu(conv1(x))); the layer
        def __init__(self, C, k1, k2, bias):  # conv1 is NOT on the first-operand chain of the block's output
            super().__init__()
            self.conv1 = nn.Conv2d(C, C, k1, padding='same', bias=bias)
            self.conv2 = nn.Conv2d(C, C, k2, padding='same')

        def forward(self, x):
            return self.conv2(x + F.relu(self.conv1(x)))

    class UBFuncAddL(nn.Module):              # residual spelled the other way round: x + relu(conv(x))
        def __init__(self, C, k, bias):
            super().__init__()
            self.conv = nn.Conv2d(C, C, k, padding='same', bias=bias)

        def forward(self, x):
            return x + F.relu(self.conv(x))

    class UBFuncAdd(nn.Module):               # residual: relu(conv(x)) + x   (tail = operator.add)
        def __init__(self, C, k, bias):
            super().__init__()
            self.conv = nn.Conv2d(C, C, k, padding='same', bias=bias)

        def forward(self, x):
            return F.relu(self.conv(x)) + x

    class UBFuncRelu(nn.Module):              # tail = torch.tanh (call_function)
        def __init__(self, C, k, bias):
            super().__init__()
            self.conv = nn.Conv2d(C, C, k, padding='same', bias=bias)

        def forward(self, x):
            return torch.tanh(self.conv(x))

    class UBFuncMethod(nn.Module):            # tail = Tensor.clamp (call_method)
        def __init__(self, C, k, bias):
            super().__init__()
            self.conv = nn.Conv2d(C, C, k, padding='same', bias=bias)

        def forward(self, x):
            return self.conv(x).clamp(min=-0.5)

    class UBReuse(nn.Module):                 # one conv invoked twice, module tail
        def __init__(self, C, k, bias):
            super().__init__()
            self.c = nn.Conv2d(C, C, k, padding='same', bias=bias)

        def forward(self, x):
            return self.c(torch.tanh(self.c(x)))

    class Container(nn.Module):               # a plain name space (never called)
        pass

    class GenNet(nn.Module):
        """Modules are registered under the qualified names of the abstract network (resolve_names) and
        invoked through `self._roles` (a plain dict), so that forward is independent of the naming: torch.fx
        finds the qualified name of each called module by identity."""

        def __init__(self, net, blocks):
            super().__init__()
            C = net["C"]
            nb = len(blocks)
            self.plan = [(b["uses"], bool(b.get("pool"))) for b in net["blocks"]]
            self.stem2 = bool(net.get("stem2"))       # the (fixed) stem is applied a second time, at half the resolution
            bnames, fnames, tanh = resolve_names(net)
            roles = {"stem": nn.Conv2d(2, C, 3, padding='same'), "bn0": nn.BatchNorm2d(C)}
            for i in range(nb):
                roles[f"mid{i}"] = nn.Conv2d(C, C, 1)
            roles["head"] = nn.Conv2d(C, 3, 3, padding='same', bias=False)
            roles["fc"] = nn.Linear(3, 2)
            order = ["stem", "bn0"] + [f"mid{i}" for i in range(nb)] + ["head", "fc"]
            self.n_extra = len(fnames) - len(order)
            for j in range(self.n_extra):                     # extra fixed 1x1 convs before the head
                roles[f"extra{j}"] = nn.Conv2d(C, C, 1, bias=(j % 2 == 0))
                order.append(f"extra{j}")
            for i, blk in enumerate(blocks):
                roles[f"blk{i}"] = blk
            where = dict(zip(order, fnames))
            where.update({f"blk{i}": bnames[i] for i in range(nb)})
            for i, t in tanh.items():
                roles[f"tanh{i}"] = nn.Tanh()
                where[f"tanh{i}"] = t
            self.has_tanh = set(tanh)
            allnames = list(where.values())
            created = []
            for role, dotted in where.items():
                atoms = dotted.split(".")
                cur = self
                for k in range(len(atoms) - 1):
                    nxt = cur._modules.get(atoms[k])
                    if nxt is None:
                        pre = ".".join(atoms[:k + 1]) + "."
                        kids = {n[len(pre):].split(".")[0] for n in allnames if n.startswith(pre)}
                        nxt = nn.Sequential() if all(x.isdigit() for x in kids) else Container()
                        cur.add_module(atoms[k], nxt)
                        if isinstance(nxt, nn.Sequential):
                            created.append(nxt)
                    cur = nxt
                cur.add_module(atoms[-1], roles[role])
            for sq in created:                                # a long nn.Sequential: >= 12 numeric children
                top = max(11, max(int(k) for k in sq._modules))
                for k in range(top + 1):
                    if str(k) not in sq._modules:
                        sq.add_module(str(k), nn.Identity())
                items = sorted(sq._modules.items(), key=lambda kv: int(kv[0]))
                sq._modules.clear()
                for k, m in items:
                    sq._modules[k] = m
            self._roles = roles

        def forward(self, x):
            r = self._roles
            x0 = r["stem"](x)
            if self.stem2:                  # a layer OUTSIDE the choice blocks invoked at two call sites of different size
                x0 = x0 + r["stem"](F.avg_pool2d(x, 2)).mean((2, 3), keepdim=True)
            x = r["bn0"](x0)
            for i, (uses, pool) in enumerate(self.plan):
                blk = r[f"blk{i}"]
                x = blk(x)
                if i in self.has_tanh:
                    x = r[f"tanh{i}"](x)
                if uses == 2:
                    x = torch.relu(x)
                    if pool:
                        x = F.avg_pool2d(x, 2)
                    x = blk(x)
                    if i in self.has_tanh:
                        x = r[f"tanh{i}"](x)
                x = torch.relu(r[f"mid{i}"](x))
            for j in range(self.n_extra):
                x = torch.tanh(r[f"extra{j}"](x))
            x = r["head"](x)
            return r["fc"](x.mean((2, 3)))

    _CLASSES.update(UBSkip=UBSkip, UBFuncAddL=UBFuncAddL, UBModTail=UBModTail, UBNested=UBNested, UBFuncAdd=UBFuncAdd, UBFuncRelu=UBFuncRelu,
                    UBFuncMethod=UBFuncMethod, UBReuse=UBReuse, GenNet=GenNet, Container=Container)
    return _CLASSES


# (kernel, bias) variants by branch position: branch costs of one block are pairwise different for up to
# 6 branches of the same kind
_VAR = [(3, True), (1, True), (5, False), (3, False), (5, True), (1, False)]


def make_branch(kind: str, C: int, pos: int):
    torch, nn, F = _torch()
    cl = _classes()
    k, bias = _VAR[pos % len(_VAR)]
    v = pos // len(_VAR) + pos
    if kind == "layer":
        if pos % 4 == 3:
            return nn.Conv2d(C, C, k, padding='same', groups=C, bias=bias)       # depthwise
        return nn.Conv2d(C, C, k, padding='same', bias=bias)
    if kind == "seq":
        if v % 3 == 0:
            return nn.Sequential(nn.Conv2d(C, C, k, padding='same', bias=bias), nn.BatchNorm2d(C), nn.ReLU(),
                                 nn.Conv2d(C, C, 1))
        if v % 3 == 1:
            return nn.Sequential(nn.Conv2d(C, C, k, padding='same', bias=bias), nn.Tanh())
        return nn.Sequential(nn.Conv2d(C, C, 1, bias=bias), nn.Conv2d(C, C, k, padding='same', groups=C),
                             nn.BatchNorm2d(C))
    if kind == "ubm":
        return [cl["UBModTail"], cl["UBNested"], cl["UBSkip"]][v % 3](C, k, 3 if k == 1 else 1, bias)
    if kind == "ubf":
        return [cl["UBFuncAdd"], cl["UBFuncRelu"], cl["UBFuncMethod"], cl["UBFuncAddL"]][v % 4](C, k, bias)
    if kind == "id":
        return nn.Identity()
    if kind == "ubr":
        return cl["UBReuse"](C, k, bias)
    raise ValueError(kind)


# names of the fixed layers of the design-level family "collide" (SNLife!CollidingFixedNames, role order:
# stem, batch-norm, one 1x1 conv per block, head, classifier, extra 1x1 convs) and its block-name pool
COLLIDING_FIXED = ["c", "f.0", "c10", "c2_p", "f.10", "g.c10", "c1_pw", "f.11", "h.c1", "h.conv1", "h.0", "h.c",
                   "sn_h", "k.dsn_c"]
BLOCK_NAME_POOL = ["c1", "c2", "f.1", "g.c1"]
RESERVED = "sn_branches"


def resolve_names(net: Dict[str, Any]):
    """(block names, fixed-layer names in role order, {block index: name of its Tanh sibling}).
    net["names"] = {"blocks": [...], "fixed": [...]} (qualified, dotted) overrides the plain default."""
    nb = len(net["blocks"])
    nm = net.get("names")
    if nm:
        if len(nm["blocks"]) != nb or len(nm["fixed"]) < nb + 4:
            raise ValueError("names do not fit the network")
        return list(nm["blocks"]), list(nm["fixed"]), {}
    bn = [f"wrap{i}.0" if net["blocks"][i].get("nest") else f"b{i}" for i in range(nb)]
    tanh = {i: f"wrap{i}.1" for i in range(nb) if net["blocks"][i].get("nest")}
    return bn, ["stem", "bn0"] + [f"mid{i}" for i in range(nb)] + ["head", "fc"], tanh


def names_ok(bnames: List[str], fnames: List[str]) -> bool:
    """All qualified names distinct and none is a container (dotted ancestor) of another."""
    al = list(bnames) + list(fnames)
    if len(set(al)) != len(al):
        return False
    return not any(a != b and b.startswith(a + ".") for a in al for b in al)


def chars(name: str) -> List[str]:
    return list(name)


def prefix_collision(bnames: List[str], fnames: List[str]) -> bool:
    return any(f.startswith(b) for b in bnames for f in fnames)


def block_prefix(net: Dict[str, Any], b: int) -> str:
    return resolve_names(net)[0][b]


def build(net: Dict[str, Any], seed: int):
    """Return (user model, input example).  Deterministic in (net, seed); float64 parameters."""
    torch, nn, F = _torch()
    from plinio.methods.supernet import SuperNetModule
    cl = _classes()
    g = torch.Generator().manual_seed(1000003 * seed + 17)
    C = net["C"]
    blocks = []
    for b in net["blocks"]:
        brs = [make_branch(k, C, i) for i, k in enumerate(b["kinds"])]
        if net.get("tie"):
            # weight sharing between two candidate layers of one block (tied Parameters, two different module objects):
            # every pair of plain conv branches with identical weight shapes shares the weight of the first
            convs = [m for m, k in zip(brs, b["kinds"]) if k == "layer"]
            for i, a in enumerate(convs):
                for c in convs[i + 1:]:
                    if c.weight.shape == a.weight.shape and c.weight is not a.weight:
                        c.weight = a.weight
        blocks.append(SuperNetModule(brs, gumbel_softmax=bool(net.get("gumbel")), hard_softmax=bool(net.get("hard0"))))
    model = cl["GenNet"](net, blocks)
    with torch.no_grad():
        for m in model.modules():
            if isinstance(m, (nn.Conv2d, nn.Linear)):
                m.weight.copy_(torch.randn(m.weight.shape, generator=g) * 0.6)
                if m.bias is not None:
                    m.bias.copy_(torch.randn(m.bias.shape, generator=g) * 0.4 + 0.1)
            elif isinstance(m, nn.BatchNorm2d):
                m.weight.copy_(torch.rand(m.weight.shape, generator=g) + 0.5)
                m.bias.copy_(torch.randn(m.bias.shape, generator=g) * 0.3)
                m.running_mean.copy_(torch.randn(m.running_mean.shape, generator=g) * 0.3)
                m.running_var.copy_(torch.rand(m.running_var.shape, generator=g) + 0.5)
    x = torch.randn((2, 2, net["hw"], net["hw"]), generator=g)
    return model, x


# --------------------------------------------------------------------------------------------------
# independent cost measurement (hooks; plain numel / MAC counting)
# --------------------------------------------------------------------------------------------------
def _numel(m) -> int:
    n = m.weight.numel()
    if m.bias is not None:
        n += m.bias.numel()
    return int(n)


def measure_invocations(module, x) -> List[Tuple[str, int, int]]:
    """Run `module` (a deep copy, eval mode) on x and return one (name, numel, ops) per invocation of a
    Conv2d / Linear leaf, in call order.  ops = numel * output positions (Conv2d) or numel (Linear)."""
    torch, nn, F = _torch()
    m2 = copy.deepcopy(module).eval()
    rec: List[Tuple[str, int, int]] = []
    hs = []
    for name, sub in m2.named_modules():
        if isinstance(sub, nn.Conv2d):
            def hook(mod, inp, out, _n=name):
                rec.append((_n, _numel(mod), _numel(mod) * int(out.shape[2]) * int(out.shape[3])))
                return None
            hs.append(sub.register_forward_hook(hook))
        elif isinstance(sub, nn.Linear):
            def hookl(mod, inp, out, _n=name):
                rec.append((_n, _numel(mod), _numel(mod)))
                return None
            hs.append(sub.register_forward_hook(hookl))
    rs = torch.random.get_rng_state()
    with torch.no_grad():
        m2(x)
    torch.random.set_rng_state(rs)
    for h in hs:
        h.remove()
    return rec


def cost_tables(net: Dict[str, Any], model, x) -> Dict[str, Any]:
    """Per block / branch / call site costs of the user model, measured on a deep copy.

    ct[b][i] = {"par": numel of the unique conv/linear layers of the branch,
                "ops": [per call site: ops summed over ALL invocations of the branch's layers],
                "uops": [per call site: ops summed over the branch's layers counted once each],
                "leafs": number of leaf modules of the branch, "reuse": some layer invoked twice per call}
    fixed = {"par", "ops"} for the layers outside choice blocks; fixedl = the same per layer, with its name."""
    rec = measure_invocations(model, x)
    out: Dict[str, Any] = {"ct": [], "fixed": {"par": 0, "ops": 0}, "fixedl": []}
    # structural classification: a layer is inside a block iff it lives under <block>.sn_branches.<i>
    # (dotted path components, so that look-alike names of fixed layers are never confused)
    prefixes = [block_prefix(net, b) + ".sn_branches." for b in range(len(net["blocks"]))]
    per_fixed: Dict[str, Dict[str, int]] = {}
    for name, numel, ops in rec:
        if not any(name.startswith(p) for p in prefixes):
            d = per_fixed.setdefault(name, {"par": numel, "ops": 0})
            d["ops"] += ops
    for name, d in per_fixed.items():
        out["fixed"]["par"] += d["par"]
        out["fixed"]["ops"] += d["ops"]
        out["fixedl"].append({"name": chars(name), "par": d["par"], "ops": d["ops"]})
    named = dict(model.named_modules())
    for b, blk in enumerate(net["blocks"]):
        row = []
        for i in range(len(blk["kinds"])):
            pre = f"{prefixes[b]}{i}"
            inv = [(n, nu, op) for (n, nu, op) in rec if n == pre or n.startswith(pre + ".")]
            uses = blk["uses"]
            per_layer: Dict[str, List[Tuple[int, int]]] = {}
            for n, nu, op in inv:
                per_layer.setdefault(n, []).append((nu, op))
            par = sum(v[0][0] for v in per_layer.values())
            ops_s = [0] * uses
            uops_s = [0] * uses
            reuse = False
            for n, lst in per_layer.items():
                if len(lst) % uses:
                    raise RuntimeError("invocation count not a multiple of the number of call sites")
                per = len(lst) // uses
                reuse = reuse or per > 1
                for s in range(uses):
                    chunk = lst[s * per:(s + 1) * per]
                    ops_s[s] += sum(c[1] for c in chunk)
                    uops_s[s] += chunk[0][1]
            root = named[pre]
            leafs = sum(1 for _, m in root.named_modules() if not list(m.children()))
            row.append({"par": par, "ops": ops_s, "uops": uops_s, "leafs": leafs, "reuse": reuse})
        out["ct"].append(row)
    return out


def leaf_names(module) -> List[str]:
    return [n for n, m in module.named_modules() if n and not list(m.children())]


def classify_modules(net: Dict[str, Any], names: List[str]):
    """Split leaf-module names into per-branch counts, combiners, fixed names."""
    nb = len(net["blocks"])
    kept = [[0] * len(net["blocks"][b]["kinds"]) for b in range(nb)]
    comb = 0
    fixed = []
    other = 0
    for n in names:
        hit = False
        for b in range(nb):
            pre = block_prefix(net, b)
            if n == pre + ".sn_combiner":
                comb += 1
                hit = True
                break
            p2 = pre + ".sn_branches."
            if n.startswith(p2):
                idx = n[len(p2):].split(".")[0]
                if idx.isdigit() and int(idx) < len(kept[b]):
                    kept[b][int(idx)] += 1
                else:
                    other += 1
                hit = True
                break
        if not hit:
            fixed.append(n)
    return kept, comb, sorted(fixed), other


def fixed_state(module, fixed_names: List[str]):
    """Fingerprint (type, repr, tensors) of the layers outside choice blocks."""
    named = dict(module.named_modules())
    out = {}
    for n in fixed_names:
        m = named.get(n)
        if m is None:
            out[n] = None
            continue
        out[n] = (type(m).__name__, repr(m), {k: v.detach().clone() for k, v in m.state_dict().items()})
    return out


def same_fixed_state(a, b) -> bool:
    torch, nn, F = _torch()
    if set(a) != set(b):
        return False
    for n in a:
        if a[n] is None or b[n] is None:
            return False
        if a[n][0] != b[n][0] or a[n][1] != b[n][1] or set(a[n][2]) != set(b[n][2]):
            return False
        for k in a[n][2]:
            if not torch.equal(a[n][2][k], b[n][2][k]):
                return False
    return True


# --------------------------------------------------------------------------------------------------
# the driver: executes abstract events on a real SuperNet and logs observations
# --------------------------------------------------------------------------------------------------
SCALE = 10000
MAX_COST = 200000          # 10^4 * cost must stay below 2^31 inside TLC


class TooBig(Exception):
    pass


class Driver:
    """One real SuperNet built from an abstract net; `do(event)` performs one abstract action and returns
    the logged event (arguments + observations)."""

    def __init__(self, net: Dict[str, Any], seed: int):
        torch, nn, F = _torch()
        from plinio.methods import SuperNet
        from plinio.methods.supernet.nn.combiner import SuperNetCombiner
        from plinio.cost import params, ops
        self.torch = torch
        self.net = net
        self.model, self.x = build(net, seed)
        tabs = cost_tables(net, self.model, self.x)
        self.tabs = tabs
        tot = tabs["fixed"]["ops"] + sum(max(sum(r["ops"]) for r in row) for row in tabs["ct"])
        if tot >= MAX_COST:
            raise TooBig(str(tot))
        self.specs = {"params": params, "ops": ops}
        self.single = "params" if net.get("single") else None     # single CostSpec + `.cost` + setter
        self.construct_err = ""
        try:
            self.sn = SuperNet(self.model, cost=params if self.single else dict(self.specs),
                               input_example=self.x[:1], full_cost=False)
        except Exception as e:                                   # noqa: BLE001 - observed; judged by the spec
            self.sn = None
            self.construct_err = type(e).__name__
            return
        self.sn.train()
        self.CombCls = SuperNetCombiner
        self.combs = self._find_combs(self.sn)
        self.orig_sn, self.ocombs = None, None
        k0, c0, f0, _ = classify_modules(net, leaf_names(self.sn.seed))
        self.fixed_names = f0
        self.gen = torch.Generator().manual_seed(7919 * seed + 3)

    def _find_combs(self, sn):
        named = dict(sn.seed.named_modules())
        out = []
        for b in range(len(self.net["blocks"])):
            c = named[block_prefix(self.net, b) + ".sn_combiner"]
            if not isinstance(c, self.CombCls):
                raise RuntimeError("combiner not found")
            out.append(c)
        return out

    def _write_alpha(self, sn, combs, b: int, vals10k: List[int], how: str) -> str:
        """Write the coefficients of block b the way user code does: in place (copy_), by rebinding .data,
        through load_state_dict, or with a real optimizer step.  Returns the write kind actually used."""
        torch = self.torch
        comb = combs[b]
        vals = torch.tensor([v / SCALE for v in vals10k], dtype=torch.float32)
        if how == "optim" and not comb.alpha.requires_grad:
            how = "copy"
        if how == "copy":
            with torch.no_grad():
                comb.alpha.copy_(vals)
        elif how == "data":
            comb.alpha.data = vals.clone()
        elif how == "load":
            key = [k for k, v in sn.named_parameters() if v is comb.alpha]
            if len(key) != 1:
                raise RuntimeError("alpha not found among the parameters")
            sd = sn.state_dict()
            sd[key[0]] = vals.clone()
            sn.load_state_dict(sd)
        elif how == "optim":
            opt = torch.optim.SGD([comb.alpha], lr=1.0)
            comb.alpha.grad = (comb.alpha.detach() - vals).clone()
            opt.step()
            comb.alpha.grad = None
        else:
            raise ValueError(how)
        return how

    # ---- abstract description handed to TLC
    def net_record(self) -> Dict[str, Any]:
        n = self.net
        return {"gumbel": bool(n.get("gumbel")), "hard0": bool(n.get("hard0")),
                "fixed": self.tabs["fixed"], "fixedl": self.tabs["fixedl"],
                "names": [chars(x) for x in resolve_names(n)[0]],
                "blocks": [{"kinds": list(b["kinds"]), "uses": b["uses"], "pool": bool(b.get("pool")),
                            "ct": self.tabs["ct"][i]} for i, b in enumerate(n["blocks"])]}

    # ---- observations
    def theta(self):
        th, exact = [], []
        for c in self.combs:
            t = c.theta_alpha.detach().to(self.torch.float64).flatten().tolist()
            th.append([int(round(v * SCALE)) if (v == v and abs(v) < 1e5) else -1 for v in t])   # NaN/inf -> -1
            exact.append(all(v == 0.0 or v == 1.0 for v in t) and sum(t) == 1.0)
        return th, exact

    def alpha(self):
        return [[int(round(v * SCALE)) for v in c.alpha.detach().to(self.torch.float64).tolist()] for c in self.combs]

    def training(self) -> bool:
        return bool(self.combs[0].training)

    def do(self, ev: Dict[str, Any]) -> Dict[str, Any]:
        torch = self.torch
        a = ev["a"]
        out = dict(ev)
        if a == "alpha":                      # the coefficients of one block are written (see _write_alpha)
            out["how"] = self._write_alpha(self.sn, self.combs, ev["b"], ev["vals"], ev.get("how", "copy"))
            out["vals"] = self.alpha()[ev["b"]]            # what the parameter really holds (x10^4)
        elif a == "fork":                     # two objects: go on with a deep copy, keep the original aside
            import copy as _copy
            try:
                cp = _copy.deepcopy(self.sn)
            except Exception as e:           # the library's state cannot be copied (e.g. a non-leaf tensor left in a
                cp = None                    # buffer): not what C03 / C06 state; go on with the one object we have and
                out["ok"] = False            # leave the original-perturbing events out (the spec skips them anyway)
                out["err"] = type(e).__name__
                self.nofork = True
            if cp is not None:
                self.orig_sn, self.ocombs = self.sn, self.combs
                self.sn = cp
                self.combs = self._find_combs(self.sn)
                if any(c is o for c, o in zip(self.combs, self.ocombs)):
                    raise RuntimeError("deepcopy returned the same combiner objects")
        elif a in ("oalpha", "ohard", "omode", "ofwd") and getattr(self, "nofork", False):
            out["skipped"] = True
        elif a == "oalpha":                   # ... and perturb the ORIGINAL
            out["how"] = self._write_alpha(self.orig_sn, self.ocombs, ev["b"], ev["vals"], ev.get("how", "copy"))
        elif a == "ohard":
            self.orig_sn.update_softmax_options(hard=bool(ev["v"]))
        elif a == "omode":
            self.orig_sn.train(bool(ev["training"]))
        elif a == "ofwd":                     # forward pass of the original in training mode
            self.orig_sn.train()
            with torch.no_grad():
                self.orig_sn(self.x)
        elif a == "hard":
            self.sn.update_softmax_options(hard=bool(ev["v"]))
        elif a == "temp":
            self.sn.update_softmax_options(temperature=ev["t100"] / 100.0)
        elif a == "mode":
            self.sn.train(bool(ev["training"]))
        elif a == "fwd":
            out["training"] = self.training()
            with torch.no_grad():
                y = self.sn(self.x)
            out["finite"] = bool(torch.isfinite(y).all())
            out["theta"], out["exact"] = self.theta()
        elif a == "summary":
            out["training"] = self.training()
            s = self.sn.summary()
            out["theta"], out["exact"] = self.theta()
            rep = []
            for b in range(len(self.combs)):
                d = s[block_prefix(self.net, b) + ".sn_combiner"]["supernet_branches"]
                rep.append([int(round(d[f"branch_{i}"]["alpha"] * SCALE)) for i in range(len(d))])
            out["reported"] = rep
        elif a == "cost":
            self.sn.full_cost = bool(ev["full"])
            out["training"] = self.training()
            out["theta"], out["exact"] = self.theta()
            if self.single:
                if self.single != ev["metric"]:
                    self.sn.cost_specification = self.specs[ev["metric"]]
                    self.single = ev["metric"]
                c = self.sn.cost
            else:
                c = self.sn.get_cost(ev["metric"])
            cf = float(c.detach())
            out["finite"] = cf == cf and abs(cf) != float("inf")
            if not out["finite"] or abs(cf) >= MAX_COST:
                out["cost10"], out["integral"] = -1, False
                out["finite"] = False
            else:
                out["cost10"] = int(round(cf * 10))
                out["integral"] = cf == float(int(cf))
        elif a == "export":
            out.update(self.export_obs())
        else:
            raise ValueError(a)
        return out

    def export_obs(self) -> Dict[str, Any]:
        torch = self.torch
        sn = self.sn
        mode = sn.training
        before = fixed_state(sn.seed, self.fixed_names)
        o: Dict[str, Any] = {"ok": False, "err": "", "kept": [], "comb": -1, "fixed_kept": False, "extra": -1,
                             "out_equal_hard": False, "fixed_untouched": False, "runs": False, "exactmax": [],
                             "exp": {"par": -1, "ops": -1, "fpar": -1, "fops": -1}}
        try:
            exp = sn.export()
        except Exception as e:                                   # noqa: BLE001 - observed, classified by the spec
            msg = str(e)
            o["err"] = "erase-with-users" if "Tried to erase Node" in msg else type(e).__name__
            sn.train(mode)
            return o
        sn.train(mode)                                           # harness restores the mode (F16 belongs to C18)
        o["ok"] = True
        # bit-exact arg-max set of every block (0-based, as SNLife!ArgMaxSet): an EXACT tie leaves nothing ambiguous (torch.argmax
        # and the one-hot of the hard selection both take the first maximum); only near-ties (equal at the logged
        # resolution, different floats) are left open by the spec
        em = []
        for c in self.combs:
            al = c.alpha.detach().flatten()
            mx = al.max()
            em.append([i for i in range(al.numel()) if bool(al[i] == mx)])
        o["exactmax"] = em
        names = leaf_names(exp)
        kept, comb, fixed, other = classify_modules(self.net, names)
        comb = max(comb, sum(1 for m in exp.modules() if isinstance(m, self.CombCls)))
        # combiner nodes left in the graph count too
        gnodes = 0
        for n in exp.graph.nodes:
            if n.op == "call_module" and str(n.target).endswith("sn_combiner"):
                gnodes += 1
        o["kept"] = kept
        o["comb"] = comb + gnodes
        o["fixed_kept"] = fixed == self.fixed_names
        o["extra"] = other
        after = fixed_state(exp, self.fixed_names)
        o["fixed_untouched"] = same_fixed_state(before, after) and same_fixed_state(before, fixed_state(sn.seed, self.fixed_names))
        # hard (one-hot) evaluation of the SuperNet vs the exported network, float64; options/theta restored
        saved = [(c.hard_softmax, c.theta_alpha) for c in self.combs]
        rs = torch.random.get_rng_state()
        try:
            sn.eval()
            for c in self.combs:
                c.hard_softmax = True
            with torch.no_grad():
                xs = torch.randn((3,) + tuple(self.x.shape[1:]), generator=self.gen)
                y_hard = sn(xs)
                try:
                    y_exp = exp.eval()(xs)
                    o["runs"] = True
                    tol = 1e-9 * (1.0 + float(y_hard.abs().max()))
                    o["out_equal_hard"] = bool(y_exp.shape == y_hard.shape and float((y_exp - y_hard).abs().max()) <= tol)
                    o["nontrivial_out"] = bool(float(y_hard.abs().max()) > 1e-6)
                except Exception:                                # noqa: BLE001
                    o["runs"] = False
        finally:
            for c, (h, t) in zip(self.combs, saved):
                c.hard_softmax = h
                c.theta_alpha = t
            sn.train(mode)
            torch.random.set_rng_state(rs)
        # cost of the exported network, measured independently
        try:
            rec = measure_invocations(exp, self.x)
            prefixes = [block_prefix(self.net, b) + ".sn_branches." for b in range(len(self.net["blocks"]))]
            seen = set()
            par = ops = fpar = fops = 0
            for name, numel, op in rec:
                isf = not any(name.startswith(p) for p in prefixes)
                if name not in seen:
                    seen.add(name)
                    par += numel
                    if isf:
                        fpar += numel
                ops += op
                if isf:
                    fops += op
            o["exp"] = {"par": par, "ops": ops, "fpar": fpar, "fops": fops}
        except Exception:                                        # noqa: BLE001
            pass
        return o


# --------------------------------------------------------------------------------------------------
# scenarios: from TLC's state graph (spec -> code) and random (code -> spec); execution; checks' core
# --------------------------------------------------------------------------------------------------
import random as _random
import re as _re


def parse_action(label: str):
    """'SetAlpha(1,2)' -> ('SetAlpha', [1, 2]);  'SetHard(TRUE)' -> ('SetHard', [True]);  'Forward' -> ('Forward', [])"""
    m = _re.match(r"^(\w+)(?:\((.*)\))?$", label.strip())
    if not m:
        raise ValueError(f"action label {label!r}")
    args = []
    if m.group(2):
        for a in m.group(2).split(","):
            a = a.strip()
            args.append(True if a == "TRUE" else False if a == "FALSE" else int(a))
    return m.group(1), args


def graph_paths(nodes, edges, init):
    """BFS tree over the dumped state graph: node id -> list of action labels from its initial state."""
    adj: Dict[str, List[Tuple[str, str]]] = {}
    for s, d, lab in edges:
        adj.setdefault(s, []).append((d, lab))
    for k in adj:
        adj[k].sort(key=lambda t: (t[1], t[0]))
    paths: Dict[str, List[str]] = {}
    root: Dict[str, str] = {}
    frontier = sorted(init)
    for i in frontier:
        paths[i] = []
        root[i] = i
    while frontier:
        nxt = []
        for s in frontier:
            for d, lab in adj.get(s, []):
                if d not in paths:
                    paths[d] = paths[s] + [lab]
                    root[d] = root[s]
                    nxt.append(d)
        frontier = nxt
    return paths, root


def ranking_vals(n: int, w: int, rng) -> List[int]:
    """Coefficients (x10^4) with pairwise gaps >= 0.05 and the maximum at branch w."""
    gap = rng.choice([500, 700, 1300, 2500])
    base = rng.choice([-8000, -1000, 0, 1000, 3000])
    ranks = list(range(n - 1))
    rng.shuffle(ranks)
    vals = []
    k = 0
    for i in range(n):
        if i == w:
            vals.append(base + gap * (n - 1))
        else:
            vals.append(base + gap * ranks[k])
            k += 1
    return vals


def concrete_net(skel: Dict[str, Any], idx: int) -> Dict[str, Any]:
    blocks = []
    for j, b in enumerate(skel["blocks"]):
        blocks.append({"kinds": list(b["kinds"]), "uses": int(b["uses"]), "pool": bool(b["pool"]),
                       "nest": (idx + j) % 3 == 1})
    net = {"C": 2 + idx % 2, "hw": 4, "gumbel": bool(skel["gumbel"]), "hard0": bool(skel["hard0"]),
           "single": idx % 4 == 2, "blocks": blocks}
    if skel.get("naming"):                   # design-level family "collide": block names chosen by TLC
        net["names"] = {"blocks": ["".join(n) for n in skel["naming"]], "fixed": list(COLLIDING_FIXED)}
        for b in blocks:
            b["nest"] = False
    return net


WRITE_KINDS = ["copy", "data", "load", "optim"]


def cost4() -> List[Dict[str, Any]]:
    return [{"a": "cost", "metric": m, "full": f} for m in ("params", "ops") for f in (False, True)]


def path_events(net: Dict[str, Any], path: List[str], rng) -> List[Dict[str, Any]]:
    ev = []
    for lab in path:
        name, args = parse_action(lab)
        if name in ("SetAlpha", "OSetAlpha"):
            b, w = args[0] - 1, args[1]
            ev.append({"a": "alpha" if name == "SetAlpha" else "oalpha", "b": b, "how": rng.choice(WRITE_KINDS),
                       "vals": ranking_vals(len(net["blocks"][b]["kinds"]), w, rng)})
        elif name == "Fork":
            ev.append({"a": "fork"})
        elif name == "OSetHard":
            ev.append({"a": "ohard", "v": bool(args[0])})
        elif name == "OForward":
            ev.append({"a": "ofwd"})
        elif name == "SetHard":
            ev.append({"a": "hard", "v": bool(args[0])})
        elif name == "SetMode":
            ev.append({"a": "mode", "training": bool(args[0])})
        elif name == "Forward":
            ev.append({"a": "fwd"})
        elif name == "Summary":
            ev.append({"a": "summary"})
        else:
            raise ValueError(lab)
    return ev


def observe_block(prop: str, state: Dict[str, Any], net: Dict[str, Any], rng) -> List[Dict[str, Any]]:
    """What is observed on the real object in a replayed state.  The coefficients are first re-written
    (values change, winners stay - the abstract state is the same): always for one-branch blocks, whose
    coefficient must be irrelevant, sometimes for the others; every write kind is used."""
    ev: List[Dict[str, Any]] = []
    for b, blk in enumerate(net["blocks"]):
        n = len(blk["kinds"])
        if n == 1 or rng.random() < 0.3:
            ev.append({"a": "alpha", "b": b, "how": rng.choice(WRITE_KINDS),
                       "vals": ranking_vals(n, state["win"][b], rng)})
    forked = bool(state.get("orig", {}).get("on"))
    if prop == "C03":
        return ev + ([{"a": "summary"}] if forked else []) + [{"a": "export"}]
    ev += cost4() + [{"a": "fwd"}] + ([{"a": "summary"}] if forked else []) + cost4()
    if state["hard"] and not (state["net"]["gumbel"] and state["training"]):
        ev += [{"a": "export"}] + cost4()
    return ev


def graph_scenarios(prop: str, nodes, edges, init, seed: int, label: str, sample: int = 0,
                    prefer=None) -> List[Dict[str, Any]]:
    """One scenario per dumped state (or a seeded sample of `sample` states, `prefer`red ones first)."""
    paths, _ = graph_paths(nodes, edges, init)
    if len(paths) != len(nodes):
        raise RuntimeError(f"{label}: {len(nodes) - len(paths)} dumped states unreachable from the initial states")
    ids = sorted(nodes)
    rng = _random.Random(f"{seed}:{label}")
    if sample and sample < len(ids):
        pref = [i for i in ids if prefer and prefer(nodes[i])]
        rest = [i for i in ids if not (prefer and prefer(nodes[i]))]
        rng.shuffle(pref)
        rng.shuffle(rest)
        ids = sorted((pref[:sample // 2] + rest)[:sample])
    out = []
    for k, i in enumerate(ids):
        st = nodes[i]
        net = concrete_net(st["net"], k)
        r2 = _random.Random(f"{seed}:{label}:{i}")
        ev = path_events(net, paths[i], r2) + observe_block(prop, st, net, r2)
        out.append({"kind": "state:" + label, "prop": prop, "net": net, "seed": seed * 7919 + k, "events": ev,
                    "winners": list(st["win"]), "path": paths[i]})
    return out


def random_net(rng, tier: str) -> Dict[str, Any]:
    nb = rng.choice([1, 1, 2, 2, 3])
    sizes = [1, 2, 3, 4, 5, 6, 8, 11, 12]
    blocks = []
    hw0 = rng.choice([4, 6])
    hw = hw0
    for _ in range(nb):
        n = rng.choice(sizes if nb < 3 else sizes[:7])
        kinds = [rng.choice(KINDS) for _ in range(n)]
        uses = rng.choice([1, 1, 2])
        pool = uses == 2 and hw % 2 == 0 and rng.random() < 0.4      # 2x2 average pooling needs an even size
        if pool:
            hw //= 2
        blocks.append({"kinds": kinds, "uses": uses, "pool": pool, "nest": rng.random() < 0.3})
    net = {"C": rng.choice([2, 3, 4]), "hw": hw0, "gumbel": rng.random() < 0.3,
           "hard0": rng.random() < 0.3, "single": rng.random() < 0.3, "blocks": blocks}
    if rng.random() < 0.3:
        net["stem2"] = True
    big = [b for b in blocks if len(b["kinds"]) >= 5]
    if big and rng.random() < 0.35:          # branches 2 and 4 (0-based) of a plain-conv kind have equal weight shapes
        b = rng.choice(big)
        b["kinds"][2] = b["kinds"][4] = "layer"
        net["tie"] = True
    if rng.random() < 0.5:
        nm = random_names(rng, nb)
        if nm:
            net["names"] = nm
            for b in blocks:
                b["nest"] = False
    return net


def random_names(rng, nb: int):
    """Adversarial naming: fixed layers whose names extend block names (conv1 / conv10 / conv1_pw), numeric
    siblings in a long Sequential (features.1 / features.10), same leaf names in other containers, names that
    contain 'sn_', a fixed layer that is a prefix of a block name; rarely the reserved attribute name."""
    pool = ["conv1", "c1", "features.1", "stage.conv1", "m.2", "layer1.0", "block", "sn_blk", "features.2"]
    bn = rng.sample(pool, nb)
    cands = []
    for b in bn:
        head, _, leaf = b.rpartition(".")
        pre = head + "." if head else ""
        cands += [b + "0", b + "_pw", b + "1", pre + leaf[:-1] if len(leaf) > 1 else pre + "q",
                  "other." + leaf, "deep.er." + leaf, pre + "0", "x." + leaf + "0"]
    cands += ["sn_head", "pre_sn_", "a.conv", "a.conv1", "a.conv2", "a.c", "a.0", "a.3", "stem", "head", "fc", "z9",
              "features.0", "features.10", "features.11", "features.12"]
    if rng.random() < 0.04:
        cands = [RESERVED + "_proj"] + cands
        first = [cands[0]]
    else:
        first = []
    rng.shuffle(cands)
    fixed: List[str] = []
    for c in first + cands:
        if c and c not in fixed and names_ok(bn, fixed + [c]):
            fixed.append(c)
        if len(fixed) >= nb + 4 + rng.choice([0, 2, 5]):
            break
    if len(fixed) < nb + 4 or not names_ok(bn, fixed):
        return None
    return {"blocks": bn, "fixed": fixed}


def random_alpha(rng, n: int) -> List[int]:
    r = rng.random()
    if r < 0.6:
        return ranking_vals(n, rng.randrange(n), rng)
    vals = [rng.randrange(-30000, 30001) for _ in range(n)]
    if r < 0.7 and n >= 2:                       # an exact tie for the maximum (two, several or all branches)
        k = rng.choice([2, 2, min(3, n), n])
        top = max(vals) + 100
        for i in rng.sample(range(n), k):
            vals[i] = top
        return vals
    # enforce gaps >= 0.05
    order = sorted(range(n), key=lambda i: vals[i])
    for a, b in zip(order, order[1:]):
        if vals[b] - vals[a] < 500:
            vals[b] = vals[a] + 500 + rng.randrange(0, 400)
    return vals


def random_scenario(prop: str, rng, tier: str, k: int, seed: int) -> Dict[str, Any]:
    net = random_net(rng, tier)
    ev: List[Dict[str, Any]] = []
    L = rng.randint(6, 16)
    forked = False
    k_fork = rng.randint(0, 8) if rng.random() < 0.4 else -1      # position of a deep copy, if any
    for _ in range(L):
        r = rng.random()
        if forked and rng.random() < 0.25:                # perturb the original
            q = rng.random()
            if q < 0.5:
                b = rng.randrange(len(net["blocks"]))
                ev.append({"a": "oalpha", "b": b, "how": rng.choice(WRITE_KINDS),
                           "vals": random_alpha(rng, len(net["blocks"][b]["kinds"]))})
            elif q < 0.7:
                ev.append({"a": "ohard", "v": rng.random() < 0.5})
            else:
                ev.append({"a": "ofwd"})
        if not forked and k_fork == len(ev):
            forked = True
            ev.append({"a": "fork"})
        if r < 0.30:
            b = rng.randrange(len(net["blocks"]))
            ev.append({"a": "alpha", "b": b, "how": rng.choice(WRITE_KINDS),
                       "vals": random_alpha(rng, len(net["blocks"][b]["kinds"]))})
        elif r < 0.40:
            ev.append({"a": "hard", "v": rng.random() < 0.6})
        elif r < 0.47:
            ev.append({"a": "temp", "t100": rng.choice([5, 20, 100, 300, 2000])})
        elif r < 0.55:
            ev.append({"a": "mode", "training": rng.random() < 0.5})
        elif r < 0.70:
            ev.append({"a": "fwd"})
        elif r < 0.75:
            ev.append({"a": "summary"})
        elif r < 0.88:
            if prop == "C03":
                ev.append({"a": "export"})
            else:
                ev.append({"a": "cost", "metric": rng.choice(["params", "ops"]), "full": rng.random() < 0.5})
        else:
            if prop == "C03":
                ev.append({"a": "export"})
            else:
                ev += [{"a": "fwd"}, {"a": "export"}] + cost4()
    ev += [{"a": "export"}] if prop == "C03" else [{"a": "fwd"}] + cost4()
    return {"kind": "random", "prop": prop, "net": net, "seed": seed * 104729 + k, "events": ev}


def execute(sc: Dict[str, Any]) -> Dict[str, Any]:
    """Run one scenario on a fresh real SuperNet; return the trace (or {'skipped': reason})."""
    try:
        d = Driver(sc["net"], sc["seed"])
    except TooBig as e:
        return {"skipped": "too-big " + str(e)}
    if d.sn is None:                         # SuperNet(...) raised: the spec decides whether that is acceptable
        n = sc["net"]
        a0 = [[SCALE // len(b["kinds"])] * len(b["kinds"]) for b in n["blocks"]]
        return {"prop": sc["prop"], "net": d.net_record(), "alpha0": a0,
                "ev": [{"a": "construct", "ok": False, "err": d.construct_err}]}
    alpha0 = d.alpha()
    ev = [{"a": "construct", "ok": True, "err": ""}] + [d.do(dict(e)) for e in sc["events"]]
    return {"prop": sc["prop"], "net": d.net_record(), "alpha0": alpha0, "ev": ev}


def _init_worker():
    torch, _, _ = _torch()
    torch.set_num_threads(1)
    torch.set_default_dtype(torch.float64)


def execute_all(scs: List[Dict[str, Any]], procs: int = 4) -> List[Dict[str, Any]]:
    """Execute scenarios, in forked worker processes when there are many (results keep the input order)."""
    _init_worker()
    if procs <= 1 or len(scs) < 64:
        return [execute(s) for s in scs]
    import multiprocessing as mp
    try:
        ctx = mp.get_context("fork")
        with ctx.Pool(processes=procs, initializer=_init_worker) as pool:
            return pool.map(execute, scs, chunksize=max(1, min(64, len(scs) // (procs * 4))))
    except (OSError, RuntimeError):
        return [execute(s) for s in scs]


def scenario_key(sc: Dict[str, Any]):
    return {"net": sc["net"], "events": sc["events"]}


def nontrivial(sc: Dict[str, Any]) -> bool:
    """Non-trivial = at some point a branch other than the initial arg-max (branch 0) wins in some block."""
    for e in sc["events"]:
        if e["a"] == "alpha" and max(range(len(e["vals"])), key=lambda i: (e["vals"][i], -i)) != 0:
            return True
    return False


def run_check(pid: str, tier: str, seed: int, replay, plan: Dict[str, Any]) -> int:
    """Common driver of C03 / C06.  plan = {'rule', 'assumptions', 'design': [...], 'sanity': [...],
    'n_random': int, 'procs': int}; a design entry is (cfg, dump?, sample, label)."""
    import json
    import tempfile
    from .core import Run, use_repo
    from . import tlc
    use_repo()
    _init_worker()
    R = Run(pid, tier, seed, level="model_checking")
    R.rule = plan["rule"]
    R.assumptions = plan["assumptions"]

    if replay:
        sc = json.load(open(replay))["scenario"]
        tr = execute(sc)
        R.validate("SNLifeTrace", "SNLifeTrace", [tr], [sc], workers=2)
        return R.finish()

    scs: List[Dict[str, Any]] = []
    counts = {}
    for cfg, dump, sample, label in plan["design"]:
        dot = tempfile.mktemp(prefix=f"{pid.lower()}-", suffix=".dot", dir=tlc.scratch()) if dump else None
        res = R.design("SNLifeMC", cfg, dump_dot=dot, coverage=True, require_cov=["SNLifeMC!SetAlpha"], workers=8)
        if dump:
            nodes, edges, init = tlc.parse_dot(dot)
            if len(nodes) != res.distinct:
                raise tlc.MachineryError(f"{cfg}: dump has {len(nodes)} states, TLC reported {res.distinct}")
            pref = None
            if "big" in label:
                pref = lambda st: any(w in (1, 10, 11) for w in st["win"])                       # noqa: E731
            elif "fork" in label:      # copy and original disagree on a winner
                pref = lambda st: bool(st["orig"].get("on")) and list(st["orig"]["win"]) != list(st["win"])  # noqa: E731
            new = graph_scenarios(pid, nodes, edges, init, seed, label, sample=sample, prefer=pref)
            counts[label] = {"states": len(nodes), "replayed": len(new)}
            scs += new
    for cfg in plan["sanity"]:
        R.design("SNLifeMC", cfg, expect_ok=False, workers=4)
    rng = _random.Random(f"{seed}:random:{pid}")
    for k in range(plan["n_random"]):
        scs.append(random_scenario(pid, rng, tier, k, seed))
    counts["random"] = {"replayed": plan["n_random"]}

    traces = execute_all(scs, plan.get("procs", 4))
    kept_s, kept_t, skipped = [], [], 0
    for s, t in zip(scs, traces):
        if "skipped" in t:
            skipped += 1
            continue
        kept_s.append(s)
        kept_t.append(t)
    R.extra["scenario_sources"] = counts
    R.extra["skipped_too_big"] = skipped
    R.extra["scenarios_with_name_prefix_collision"] = sum(
        1 for s in kept_s if prefix_collision(*resolve_names(s["net"])[:2]))
    R.extra["models_rejected_at_construction"] = sum(1 for t in kept_t if not t["ev"][0]["ok"])
    n_exp = sum(1 for t in kept_t for e in t["ev"] if e["a"] == "export")
    n_exp_ok = sum(1 for t in kept_t for e in t["ev"] if e["a"] == "export" and e["ok"])
    n_cost = sum(1 for t in kept_t for e in t["ev"] if e["a"] == "cost")
    R.extra["export_calls"] = n_exp
    R.extra["export_calls_succeeded"] = n_exp_ok
    R.extra["cost_calls"] = n_cost
    if pid == "C03":
        triv = sum(1 for t in kept_t for e in t["ev"] if e["a"] == "export" and e["ok"] and not e.get("nontrivial_out", False))
        R.extra["exports_with_all_zero_output"] = triv
    for s, t in list(zip(kept_s, kept_t))[:1] + list(zip(kept_s, kept_t))[-1:]:
        R.sample({"scenario": {"kind": s["kind"], "net": s["net"], "events": s["events"][:6]},
                  "observed": [e for e in t["ev"] if e["a"] in ("export", "cost")][:2]})
    R.validate("SNLifeTrace", "SNLifeTrace", kept_t, kept_s, nontrivial=nontrivial, key=scenario_key,
               label="replayed states + random", workers=8, chunk=1500)
    R.exhaustive = False
    return R.finish()
