"""Shared driver of the C17 (checkpoint / resume) and C18 (observers) checks.

* seed networks and wrappers of the three methods (PIT, MPS per-layer / per-channel, SuperNet),
* an observer-neutral fingerprint of a NAS model: everything that executes code of the model under test
  (probing forward passes, cost, summary) runs on a *faithful deep copy*; only read-only facts (state_dict
  bytes, .training flags, requires_grad, RNG state) are taken from the live object,
* an id table per scenario: every observed value (bytes of a tensor, canonical JSON of a summary, exact
  float of a cost) is mapped to a small integer in first-seen order, so that TLC decides equality of
  observations on integers,
* the executor of the abstract calls of specs/ObserversMC.tla and specs/CheckpointMC.tla.

plinio is imported lazily (after core.use_repo()).
"""
from __future__ import annotations

import copy
import hashlib
import json
import math
import warnings
from typing import Any, Dict, List, Tuple

import torch
import torch.nn as nn

from .tlc import MachineryError

TOL = 1e-6          # "equal to float round-off" for float32 outputs: |a-b| <= TOL * (1 + max|a|)


# ----------------------------------------------------------------------------------------------
# seed networks
# ----------------------------------------------------------------------------------------------
class PitTcn(nn.Module):
    """1-D net: width tied to the input (cin + x), shared add group (c0, c1 with a fused BN), strided Conv1d,
    output-tied head behind a flatten."""
    shape = (3, 8)

    def __init__(self):
        super().__init__()
        self.cin = nn.Conv1d(3, 3, 3, padding='same')
        self.c0 = nn.Conv1d(3, 4, 3, padding='same')
        self.c1 = nn.Conv1d(3, 4, 5, padding='same')
        self.bn1 = nn.BatchNorm1d(4)
        self.c2 = nn.Conv1d(4, 5, 5, stride=2, padding=2)
        self.c3 = nn.Conv1d(5, 4, 3, padding='same')
        self.fc = nn.Linear(4 * 4, 2)

    def forward(self, x):
        r = torch.relu(self.cin(x) + x)
        a = self.c0(r)
        b = torch.relu(self.bn1(self.c1(r)))
        y = torch.relu(self.c2(a + b))
        y = torch.relu(self.c3(y))
        return self.fc(y.flatten(1))


class Cnn2d(nn.Module):
    """2-D net: shared add group, conv-BN, stand-alone (unfused) BN after the add, two linear layers."""
    shape = (3, 6, 6)

    def __init__(self):
        super().__init__()
        self.c0 = nn.Conv2d(3, 4, 3, padding=1)
        self.bn0 = nn.BatchNorm2d(4)
        self.c1 = nn.Conv2d(3, 4, 3, padding=1)
        self.c2 = nn.Conv2d(4, 6, 3, padding=1, bias=False)
        self.bn2 = nn.BatchNorm2d(6)
        self.pool = nn.AdaptiveAvgPool2d(1)
        self.fc1 = nn.Linear(6, 5)
        self.fc2 = nn.Linear(5, 2)

    def forward(self, x):
        y = torch.relu(self.bn0(self.c0(x))) + torch.relu(self.c1(x))
        y = torch.relu(self.bn2(self.c2(y)))
        y = self.pool(y).flatten(1)
        return self.fc2(torch.relu(self.fc1(y)))


class FlatCnn(nn.Module):
    """conv -> conv -> pool -> flatten -> linear (a flatten in front of the classifier), depthwise conv."""
    shape = (3, 8, 8)

    def __init__(self):
        super().__init__()
        self.c0 = nn.Conv2d(3, 6, 3, padding=1)
        self.dw = nn.Conv2d(6, 6, 3, padding=1, groups=6)
        self.c1 = nn.Conv2d(6, 8, 3, padding=1)
        self.pool = nn.AvgPool2d(2)
        self.fc = nn.Linear(8 * 4 * 4, 5)

    def forward(self, x):
        y = torch.relu(self.c0(x))
        y = torch.relu(self.dw(y))
        y = self.pool(torch.relu(self.c1(y)))
        return self.fc(torch.flatten(y, 1))


class CatNet(nn.Module):
    """channel concatenations in front of the classifier: cat(flatten, flatten), nested, together with the flattened
    network input (constant-features producer); the concat calculators register buffers (state_dict keys) on the Linear"""
    shape = (3, 4, 4)

    def __init__(self):
        super().__init__()
        self.c0 = nn.Conv2d(3, 4, 3, padding=1)
        self.c1 = nn.Conv2d(3, 5, 3, padding=1)
        self.pool = nn.AvgPool2d(2)
        self.fc = nn.Linear(4 * 4 + 5 * 4 + 3 * 16, 6)
        self.fc2 = nn.Linear(6, 3)

    def forward(self, x):
        a = torch.flatten(self.pool(torch.relu(self.c0(x))), 1)
        b = torch.flatten(self.pool(torch.relu(self.c1(x))), 1)
        y = torch.cat([torch.cat([a, b], dim=1), torch.flatten(x, 1)], dim=1)
        return self.fc2(torch.relu(self.fc(y)))


class CatNet2(nn.Module):
    """cat(flatten(conv), flatten(conv)) -> Linear, and a channel concat of two conv outputs feeding a conv"""
    shape = (3, 4, 4)

    def __init__(self):
        super().__init__()
        self.c0 = nn.Conv2d(3, 3, 3, padding=1)
        self.c1 = nn.Conv2d(3, 4, 3, padding=1)
        self.c2 = nn.Conv2d(7, 4, 3, padding=1)
        self.fc = nn.Linear(4 * 16 + 3 * 16, 3)

    def forward(self, x):
        a = torch.relu(self.c0(x))
        b = torch.relu(self.c1(x))
        y = torch.relu(self.c2(torch.cat([a, b], dim=1)))
        return self.fc(torch.cat([torch.flatten(y, 1), torch.flatten(a, 1)], dim=1))


class MpsCnn(nn.Module):
    """residual add (shared activation quantiser, MPSAdd), conv-BN (folded by MPS), linear head."""
    shape = (3, 4, 4)

    def __init__(self):
        super().__init__()
        self.c0 = nn.Conv2d(3, 4, 3, padding=1)
        self.c1 = nn.Conv2d(3, 4, 3, padding=1)
        self.bn = nn.BatchNorm2d(4)
        self.c2 = nn.Conv2d(4, 4, 3, padding=1)
        self.fc = nn.Linear(4 * 4 * 4, 2)

    def forward(self, x):
        a = torch.relu(self.c0(x))
        b = torch.relu(self.bn(self.c1(x)))
        y = torch.relu(self.c2(a + b))
        return self.fc(y.flatten(1))


class MpsSeq(nn.Module):
    """plain sequential conv net without an add (no MPSAdd), pooling, bias-free conv."""
    shape = (3, 6, 6)

    def __init__(self):
        super().__init__()
        self.c0 = nn.Conv2d(3, 5, 3, padding=1)
        self.c1 = nn.Conv2d(5, 4, 3, padding=1, bias=False)
        self.pool = nn.AdaptiveAvgPool2d(1)
        self.fc = nn.Linear(4, 3)

    def forward(self, x):
        y = torch.relu(self.c0(x))
        y = torch.relu(self.c1(y))
        return self.fc(torch.flatten(self.pool(y), 1))


def _sn_net(gumbel: bool, hard: bool):
    from plinio.methods.supernet import SuperNetModule

    class SnNet(nn.Module):
        """two SuperNet blocks (3 and 2 branches; a Sequential branch with its own BN, an Identity branch),
        a fixed conv-BN between them, linear head."""
        shape = (3, 4, 4)

        def __init__(self):
            super().__init__()
            self.b1 = SuperNetModule([
                nn.Conv2d(3, 3, 3, padding='same'),
                nn.Sequential(nn.Conv2d(3, 3, 3, padding='same'), nn.BatchNorm2d(3), nn.ReLU(), nn.Conv2d(3, 3, 1)),
                nn.Identity()], gumbel_softmax=gumbel, hard_softmax=hard)
            self.mid = nn.Conv2d(3, 4, 3, padding=1)
            self.bn = nn.BatchNorm2d(4)
            self.b2 = SuperNetModule([
                nn.Conv2d(4, 4, 3, padding='same'),
                nn.Conv2d(4, 4, 5, padding='same')], gumbel_softmax=gumbel, hard_softmax=hard)
            self.fc = nn.Linear(4 * 4 * 4, 2)

        def forward(self, x):
            y = torch.relu(self.b1(x))
            y = torch.relu(self.bn(self.mid(y)))
            y = torch.relu(self.b2(y))
            return self.fc(y.flatten(1))

    return SnNet()


def _randomize(net: nn.Module, gen: torch.Generator) -> None:
    """Generic weights / biases / BN statistics (nothing is 0 or 1 by accident)."""
    with torch.no_grad():
        for m in net.modules():
            if isinstance(m, (nn.Conv1d, nn.Conv2d, nn.Linear)):
                w = (torch.rand(m.weight.shape, generator=gen) * 0.5 + 0.1) * \
                    (torch.randint(0, 2, m.weight.shape, generator=gen) * 2 - 1)
                m.weight.copy_(w)
                if m.bias is not None:
                    m.bias.copy_(torch.rand(m.bias.shape, generator=gen) * 0.4 + 0.1)
            elif isinstance(m, (nn.BatchNorm1d, nn.BatchNorm2d)):
                m.weight.copy_(torch.rand(m.weight.shape, generator=gen) + 0.5)
                m.bias.copy_(torch.rand(m.bias.shape, generator=gen) * 0.4 + 0.1)
                m.running_mean.copy_(torch.rand(m.running_mean.shape, generator=gen) - 0.5)
                m.running_var.copy_(torch.rand(m.running_var.shape, generator=gen) + 0.5)


# ----------------------------------------------------------------------------------------------
# cost specifications (abstract names "A", "B" = single CostSpec, "D" = dictionary of both)
# ----------------------------------------------------------------------------------------------
def cost_spec(kind: str, name: str):
    import plinio.cost as pc
    if kind == "mps":
        a, b = pc.params_bit, pc.ops_bit
    else:
        a, b = pc.params, pc.ops
    if name == "A":
        return a
    if name == "B":
        return b
    if name == "D":
        return {"a": a, "b": b}
    raise MachineryError(f"cost spec {name}")


def _spec_copy_into(dst, src):
    dst.shared = src.shared
    dst.default = src.default
    dst.data.clear()
    dst.data.update({k: list(v) for k, v in src.data.items()})
    return dst


def spec_object(kind: str, name: str, how: str, user_spec=None):
    """A cost specification of contents `name` ("A" | "B" | "D") given as
       "s": the built-in (module-level) object(s);
       "f": freshly constructed temporary CostSpec object(s) with the same registrations (garbage once replaced);
       "i": the scenario's own CostSpec object `user_spec`, changed IN PLACE to these contents (single specs only)."""
    from plinio.cost import CostSpec
    src = cost_spec(kind, name)
    if how == "s":
        return src
    if how == "f":
        mk = lambda c: _spec_copy_into(CostSpec(), c)
        return {k: mk(v) for k, v in src.items()} if isinstance(src, dict) else mk(src)
    if how == "i":
        if isinstance(src, dict) or user_spec is None:
            raise MachineryError("in-place specification: single specifications only")
        return _spec_copy_into(user_spec, src)
    raise MachineryError(f"spec object kind {how}")


# ----------------------------------------------------------------------------------------------
# construction
# ----------------------------------------------------------------------------------------------
VARIANTS = {"pit": ["tcn", "cnn2d", "flat", "tcn_foldbn", "cat", "cat2"],
            "mps": ["layer", "channel", "channel0", "seq", "cat", "cat2"],
            "sn": ["std"]}


def build(kind: str, variant: str, init: Dict[str, Any], wseed: int):
    """(kind, variant, constructor arguments) -> (wrapper, probe batch).  Deterministic in its arguments: two calls
    give two NEW objects in the same state ("a freshly constructed wrapper of the same seed network")."""
    from plinio.methods import PIT, MPS, SuperNet
    from plinio.methods.mps import MPSType, get_default_qinfo
    torch.manual_seed(1000 + wseed)
    gen = torch.Generator().manual_seed(5000 + wseed)
    train = bool(init.get("train", True))
    cs = cost_spec(kind, init.get("cs", "A"))
    fc = bool(init.get("fc", False))
    with warnings.catch_warnings():
        warnings.simplefilter("ignore")
        if kind == "pit":
            net = {"tcn": PitTcn, "tcn_foldbn": PitTcn, "cnn2d": Cnn2d, "flat": FlatCnn, "cat": CatNet, "cat2": CatNet2}[variant]()
            _randomize(net, gen)
            net.train(train)
            m = PIT(net, cost=cs, input_shape=net.shape, full_cost=fc, discrete_cost=bool(init.get("dc", False)),
                    fold_bn=(variant == "tcn_foldbn"))
        elif kind == "mps":
            net = {"seq": MpsSeq, "cat": CatNet, "cat2": CatNet2}.get(variant, MpsCnn)()
            _randomize(net, gen)
            net.train(train)
            wt = MPSType.PER_LAYER if variant in ("layer", "seq", "cat", "cat2") else MPSType.PER_CHANNEL
            wp = (0, 2, 4, 8) if variant.endswith("0") else (2, 4, 8)
            kw = {}
            if "temp" in init:       # constructor temperature as given (int or float: the TYPE matters)
                kw["temperature"] = init["temp"]
            m = MPS(net, cost=cs, input_shape=net.shape, full_cost=fc, w_search_type=wt,
                    qinfo=get_default_qinfo(wp, (2, 4, 8)), hard_softmax=bool(init.get("hard", False)),
                    gumbel_softmax=bool(init.get("gumbel", False)), disable_sampling=bool(init.get("disable", False)),
                    **kw)
        elif kind == "sn":
            net = _sn_net(bool(init.get("gumbel", False)), bool(init.get("hard", False)))
            _randomize(net, gen)
            net.train(train)
            m = SuperNet(net, cost=cs, input_shape=net.shape, full_cost=fc)
            # SuperNet.__init__ does not restore the mode the caller's network was in (conversion forces eval, the
            # wrapper's own flag stays True); unless the scenario asks for the wrapper exactly as constructed
            # (init["raw"]), its initial mode is set explicitly through the public call
            if not init.get("raw", False):
                m.train(train)
        else:
            raise MachineryError(f"kind {kind}")
    if "setmode" in init:
        m.train(bool(init["setmode"]))
    x = torch.randn((4,) + tuple(net.shape), generator=gen)
    return m, x


def perturb_nas(kind: str, m, wseed: int) -> None:
    """Make the architectural coefficients generic (distinct, non-uniform) so that 'equal' is never accidental and
    arg-max / binarisation are away from ties.  Written through .data (stand-in for earlier optimizer steps)."""
    gen = torch.Generator().manual_seed(9000 + wseed)
    # which parameters are architectural is asked of a COPY (named_nas_parameters() is itself one of the read-only calls
    # C18 puts under test: it is never executed on the live object by the harness)
    names = [n for n, _ in safe_deepcopy(m)[0].named_nas_parameters()]
    live = dict(m.named_parameters())
    with torch.no_grad():
        for n in names:
            p = live.get(n)
            if not isinstance(p, nn.Parameter):
                continue
            if kind == "pit":
                # keep some channels / taps below the 0.5 threshold, some above
                p.copy_(torch.rand(p.shape, generator=gen) * 0.9 + 0.1)
            elif n.endswith("alpha"):
                p.add_(torch.rand(p.shape, generator=gen) * 0.4)
            # quantiser-internal parameters (clip_val) are left at their initial value


# ----------------------------------------------------------------------------------------------
# faithful deep copy (never executes the model)
# ----------------------------------------------------------------------------------------------
def _is_batched(t: torch.Tensor) -> bool:
    try:
        return bool(torch._C._functorch.is_batchedtensor(t))
    except Exception:
        return False


def _deepcopy_with(m: nn.Module, tolerate_batched: bool) -> nn.Module:
    orig = torch.Tensor.__deepcopy__

    def patched(self, memo):
        if id(self) in memo:
            return memo[id(self)]
        if tolerate_batched and _is_batched(self):
            memo[id(self)] = None
            return None
        if self.grad_fn is not None and not isinstance(self, nn.Parameter) and not _is_batched(self):
            r = self.detach().clone()
            memo[id(self)] = r
            return r
        return orig(self, memo)

    torch.Tensor.__deepcopy__ = patched
    try:
        with warnings.catch_warnings():
            warnings.simplefilter("ignore")
            return copy.deepcopy(m)
    finally:
        torch.Tensor.__deepcopy__ = orig


def safe_deepcopy(m: nn.Module) -> Tuple[nn.Module, List[str], bool]:
    """copy.deepcopy(m) that also works when the object holds (anywhere, also nested in containers) non-leaf tensors
    (e.g. the theta_alpha written by a grad-enabled forward: copied as detached clones; that is how a forward pass
    leaves every MPS model and has nothing to do with observers).  The live object is not touched.
    A first, STRICT attempt tolerates nothing else: if it fails (e.g. a dead functorch BatchedTensor left by a vmap'ed
    cost function in a module's __dict__: torch refuses to copy or pickle it) the model is `not copyable` and a second
    attempt copies such tensors as None.  Returns (copy, names of the attributes holding dead BatchedTensors, copy_ok)."""
    dirty = []
    for mn, mod in m.named_modules():
        for k, v in list(mod.__dict__.items()):
            if isinstance(v, torch.Tensor) and _is_batched(v):
                dirty.append(f"{type(mod).__name__}.{k}")
    try:
        return _deepcopy_with(m, False), sorted(set(dirty)), True
    except MachineryError:
        raise
    except Exception:
        return _deepcopy_with(m, True), sorted(set(dirty)), False


def public_dict_keys(m: nn.Module) -> Dict[str, List[str]]:
    """module name -> sorted PUBLIC keys of vars(module) (names not starting with '_': private attributes such as
    caches / memos are an implementation's own business and are not compared)"""
    return {n: sorted(k for k in vars(mod) if not k.startswith("_")) for n, mod in m.named_modules()}


def is_nas_module(mod: nn.Module) -> bool:
    from plinio.methods.pit.nn.module import PITModule
    from plinio.methods.mps.nn.module import MPSModule
    from plinio.methods.mps.nn.qtz import MPSBaseQtz, MPSBiasQtz
    from plinio.methods.supernet.nn.combiner import SuperNetCombiner
    return isinstance(mod, (PITModule, MPSModule, MPSBaseQtz, MPSBiasQtz, SuperNetCombiner))


def dict_key_diff(m: nn.Module, before: Dict[str, List[str]], after: Dict[str, List[str]]) -> Dict[str, Any]:
    """what a call did to the public attribute key sets: new / removed keys as records [m (module type), k (key),
    nas (the module is a searchable layer / quantiser / combiner of the method)] (first 16) and their counts"""
    mods = dict(m.named_modules())
    new, gone = [], []
    for n in sorted(set(before) | set(after)):
        b, a = set(before.get(n, [])), set(after.get(n, []))
        mod = mods.get(n)
        ty = type(mod).__name__ if mod is not None else "?"
        nas = bool(mod is not None and is_nas_module(mod))
        new += [{"m": ty, "k": k, "nas": nas} for k in sorted(a - b)]
        gone += [{"m": ty, "k": k, "nas": nas} for k in sorted(b - a)]
    uniq = lambda xs: [json.loads(y) for y in sorted({json.dumps(x, sort_keys=True) for x in xs})]
    return {"new": uniq(new)[:16], "nnew": len(new), "del": uniq(gone)[:16], "ndel": len(gone)}


# ----------------------------------------------------------------------------------------------
# id table
# ----------------------------------------------------------------------------------------------
class Ids:
    """first-seen numbering of observed values, one table per scenario (ids are comparable inside a trace only)"""

    def __init__(self):
        self.t: Dict[Tuple[str, str], int] = {}
        self.outs: Dict[int, torch.Tensor] = {}

    def of(self, space: str, key: str) -> int:
        k = (space, key)
        if k not in self.t:
            self.t[k] = sum(1 for s, _ in self.t if s == space) + 1
        return self.t[k]

    def tensor(self, space: str, t: torch.Tensor) -> int:
        t = t.detach().cpu().contiguous()
        i = self.of(space, str(tuple(t.shape)) + str(t.dtype) + hashlib.sha1(t.numpy().tobytes()).hexdigest())
        if space == "out":
            self.outs.setdefault(i, t.clone())
        return i

    def out(self, t: torch.Tensor) -> Tuple[int, int]:
        """(cluster id, exact id) of an output tensor: the cluster id is the exact id of the first tensor seen that
        is equal to this one up to float round-off (TOL), so equality of cluster ids = 'equal to round-off'"""
        x = self.tensor("out", t)
        for j in sorted(self.outs):
            if j <= x and self.out_close(j, x):
                return j, x
        return x, x

    def out_close(self, i: int, j: int) -> bool:
        """two output ids denote tensors equal to float round-off"""
        if i == j:
            return True
        a, b = self.outs.get(i), self.outs.get(j)
        if a is None or b is None or a.shape != b.shape:
            return False
        if not (torch.isfinite(a).all() and torch.isfinite(b).all()):
            return False
        return bool((a - b).abs().max() <= TOL * (1 + a.abs().max()))


def _hash_items(items) -> str:
    h = hashlib.sha1()
    for k, v in items:
        h.update(k.encode())
        v = v.detach().cpu().contiguous()
        h.update(str(tuple(v.shape)).encode())
        h.update(str(v.dtype).encode())
        h.update(v.numpy().tobytes())
    return h.hexdigest()


def jsonable(x: Any) -> Any:
    """summary() dictionaries -> canonical JSON-able structure (tensors -> lists, floats exact)"""
    if isinstance(x, dict):
        return {str(k): jsonable(v) for k, v in sorted(x.items(), key=lambda kv: str(kv[0]))}
    if isinstance(x, (list, tuple)):
        return [jsonable(v) for v in x]
    if isinstance(x, torch.Tensor):
        return jsonable(x.detach().cpu().tolist())
    if isinstance(x, float):
        return x.hex() if math.isfinite(x) else str(x)
    if isinstance(x, (int, bool, str)) or x is None:
        return x
    return str(x)


def cost_values(m) -> List[float]:
    """every cost the model offers under its current specification, as exact Python floats"""
    cs = m.cost_specification
    if isinstance(cs, dict):
        return [float(m.get_cost(n).detach()) for n in sorted(cs)]
    return [float(m.cost.detach())]


# ----------------------------------------------------------------------------------------------
# fingerprint
# ----------------------------------------------------------------------------------------------
def nas_names(m) -> set:
    return {n for n, _ in m.named_nas_parameters()}


def theta_class(kind: str, m) -> str:
    """class of the sampled coefficients currently stored in the model: '-' (PIT), 'hard' (every stored theta is
    one-hot per decision), 'soft' otherwise.  Read-only."""
    if kind == "pit":
        return "-"
    ths = []
    for mod in m.modules():
        th = getattr(mod, "theta_alpha", None)
        al = getattr(mod, "alpha", None)
        if isinstance(th, torch.Tensor) and isinstance(al, torch.Tensor) and th.dim() >= 1 and th.shape[0] > 1:
            ths.append(th.detach())
    if not ths:
        return "-"
    onehot = all(bool(((t == 0) | (t == 1)).all()) and bool((t.sum(dim=0) == 1).all()) for t in ths)
    return "hard" if onehot else "soft"


def export_fingerprint(e: nn.Module, x: torch.Tensor, ids: Ids) -> Dict[str, Any]:
    """exported network: structure (module tree with types and hyper-parameters), weights, eval-mode output"""
    struct = []
    for n, mod in e.named_modules():
        if n == "":
            continue
        hp = {k: jsonable(getattr(mod, k)) for k in ("in_channels", "out_channels", "kernel_size", "stride", "padding",
                                                      "dilation", "groups", "in_features", "out_features",
                                                      "num_features", "precision") if hasattr(mod, k)}
        struct.append([n, type(mod).__name__, hp])
    code = getattr(e, "code", "")
    rng0 = torch.get_rng_state()
    e2 = safe_deepcopy(e)[0]
    e2.eval()
    with torch.no_grad():
        y = e2(x)
    torch.set_rng_state(rng0)
    cl, ex = ids.out(y)
    return {"struct": ids.of("xstruct", json.dumps(struct) + code),
            "sd": ids.of("xsd", _hash_items(e.state_dict().items())),
            "out": cl, "outx": ex,
            "tr": bool(e.training)}


# ----------------------------------------------------------------------------------------------
# C18: executor of call sequences (full run + run with the observer calls erased)
# ----------------------------------------------------------------------------------------------
OBSERVER_OPS = ("export", "summary", "cost", "getcost", "inspect")
NO_RET = {"k": "none", "a": 0, "b": 0, "c": 0, "rg": False, "g": 0}


def _settle(kind: str, m, x: torch.Tensor, wseed: int) -> None:
    """generic architectural coefficients + "the usual forward pass" in the initial mode"""
    perturb_nas(kind, m, wseed)
    m(x)


def bn_live(m, xf: torch.Tensor) -> bool:
    """does a training-mode forward pass update BatchNorm statistics? (probed on a copy; fold_bn / MPS: no)"""
    c = safe_deepcopy(m)[0]
    before = [int(v) for k, v in c.state_dict().items() if k.endswith("num_batches_tracked")]
    c.train()
    with torch.no_grad():
        c(xf)
    after = [int(v) for k, v in c.state_dict().items() if k.endswith("num_batches_tracked")]
    return before != after


def _costv_ids(vals: List[float], ids: Ids) -> List[int]:
    return [ids.of("costv", v.hex() if math.isfinite(v) else str(v)) for v in vals]


PIT_OPT = {"tf": "train_features", "trf": "train_rf", "td": "train_dilation", "dc": "discrete_cost"}


def _deciders(kind: str, m) -> List[Tuple[str, nn.Module]]:
    """the modules that sample architectural coefficients: MPS quantisers / SuperNet combiners (in module order)"""
    if kind == "mps":
        from plinio.methods.mps.nn.qtz import MPSBaseQtz
        return [(n, q) for n, q in m.named_modules() if isinstance(q, MPSBaseQtz)]
    if kind == "sn":
        from plinio.methods.supernet.nn.combiner import SuperNetCombiner
        return [(n, q) for n, q in m.named_modules() if isinstance(q, SuperNetCombiner)]
    return []


def sampler_class(q) -> str:
    """Classify the sampling routine of a quantiser / combiner by what it DOES (soft, training mode): 'none' leaves
    theta_alpha untouched, 'gs' depends on the random stream, 'sm' does not.  Destructive: call on a copy only."""
    q.hard_softmax = False
    q.training = True
    res = []
    with torch.no_grad():
        for sd in (11, 12):
            q.theta_alpha = torch.full_like(q.theta_alpha.detach(), -7.0)
            torch.manual_seed(sd)
            q.sample_alpha()
            res.append(q.theta_alpha.detach().clone())
    if all(bool((r == -7.0).all()) for r in res):
        return "none"
    return "sm" if torch.equal(res[0], res[1]) else "gs"


def _agg(vals: List[Any], none: Any = "-") -> Any:
    vs = {json.dumps(v) for v in vals}
    if not vs:
        return none
    return vals[0] if len(vs) == 1 else "mixed"


def option_view(kind: str, m, mcopy, executed: set) -> Tuple[Dict[str, Any], str]:
    """(aggregated option record, canonical JSON of the complete per-module option vector).
    Stored options are read from the live model `m`; the sampler in force is classified behaviourally on the modules
    of the faithful copy `mcopy`.  The complete vector covers every quantiser / combiner; the aggregate (used for the
    model's predictions only) covers the LIVE ones: executed by the forward pass and with more than one alternative
    (update_softmax_options may skip the others; a sampler over a single alternative cannot be classified)."""
    tf = lambda b: "T" if b else "F"
    if kind == "pit":
        from plinio.methods.pit.nn.module import PITModule
        layers = [(n, l) for n, l in m.named_modules() if isinstance(l, PITModule)]
        vec = {"get": {o: bool(getattr(m, a)) for o, a in PIT_OPT.items()},
               "layers": [[n] + [getattr(l, a, None) if not isinstance(getattr(l, a, None), torch.Tensor) else None
                                 for a in PIT_OPT.values()] for n, l in layers]}
        ldc = {bool(l.discrete_cost) for _, l in layers if hasattr(l, "discrete_cost")}
        agg = {"temp": 0, "hard": "-", "gumbel": "-", "disable": "-", "samp": "-",
               "tf": tf(m.train_features), "trf": tf(m.train_rf), "td": tf(m.train_dilation),
               "dc": tf(m.discrete_cost) if ldc <= {bool(m.discrete_cost)} else "mixed"}
        return agg, json.dumps(vec, sort_keys=True, default=str)
    live = _deciders(kind, m)
    cop = dict(_deciders(kind, mcopy))
    rows, temps, hards, gums, diss, samps = [], [], [], [], [], []
    for n, q in live:
        t = q.temperature if kind == "mps" else q.softmax_temperature
        t = int(round(float(t) * 1000))
        multi = int(q.alpha.shape[0]) > 1
        sp = sampler_class(cop[n]) if multi and n in cop else "?"
        g, d = getattr(q, "gumbel_softmax", None), getattr(q, "disable_sampling", None)
        rows.append([n, t, bool(q.hard_softmax), g, d, sp])
        if not (multi and n in executed):
            continue
        temps.append(t)
        hards.append(tf(q.hard_softmax))
        samps.append(sp)
        if g is not None:
            gums.append(tf(g))
        if d is not None:
            diss.append(tf(d))
    agg = {"temp": _agg(temps, 0) if _agg(temps, 0) != "mixed" else -1, "hard": _agg(hards), "gumbel": _agg(gums),
           "disable": _agg(diss), "samp": _agg(samps), "tf": "-", "trf": "-", "td": "-", "dc": "-"}
    return agg, json.dumps(rows, sort_keys=True, default=str)


def grad_link(kind: str, m) -> Tuple[str, str]:
    """The autograd link of what is stored in the model: for every quantiser / combiner, whether its stored theta_alpha
    requires grad and the gradient of a fixed linear functional of it w.r.t. its alpha.  Pure torch on the stored
    tensors (retain_graph, no .grad is written, nothing of plinio runs).  Returns (canonical string, "T"|"F"|"mixed"|"-")."""
    rows, rgs = [], []
    for n, q in _deciders(kind, m):
        th, al = getattr(q, "theta_alpha", None), getattr(q, "alpha", None)
        if not isinstance(th, torch.Tensor) or not isinstance(al, torch.Tensor):
            continue
        if not th.requires_grad:
            rows.append([n, False, "-"])
            rgs.append(False)
            continue
        w = torch.arange(1, th.numel() + 1, dtype=th.dtype).reshape(th.shape) / th.numel()
        try:
            (g,) = torch.autograd.grad((th * w).sum(), [al], retain_graph=True, allow_unused=True)
        except RuntimeError as ex:       # a graph that can no longer be traversed is a link that is gone
            rows.append([n, True, "error:" + str(ex)[:40]])
            rgs.append(False)
            continue
        rows.append([n, True, "none" if g is None else hashlib.sha1(g.detach().contiguous().numpy().tobytes()).hexdigest()])
        rgs.append(g is not None)
    agg = "-" if not rgs else "T" if all(rgs) else "F" if not any(rgs) else "mixed"
    return json.dumps(rows), agg


def cost_grad(m, cv: torch.Tensor, ids: Ids) -> Tuple[bool, int]:
    """requires_grad of a cost value read on the live model and the id of its gradient w.r.t. EVERY parameter of the model
    (torch.autograd.grad with retain_graph: no .grad is written, the graph stays usable)"""
    if not cv.requires_grad:
        return False, ids.of("cgrad", "no-grad")
    ps = [p for p in m.parameters() if p.requires_grad]
    try:
        gs = torch.autograd.grad(cv, ps, retain_graph=True, allow_unused=True)
    except RuntimeError as ex:
        return True, ids.of("cgrad", "error:" + str(ex)[:60])
    h = hashlib.sha1()
    for g in gs:
        h.update(b"none" if g is None else g.detach().contiguous().numpy().tobytes())
    return True, ids.of("cgrad", h.hexdigest())


def observe(kind: str, m, x: torch.Tensor, ids: Ids, cs: str) -> Dict[str, Any]:
    """fingerprint + bookkeeping fields of the trace format"""
    rng0 = torch.get_rng_state()
    # the faithful copy first: NOTHING of plinio is executed on the live object by the fingerprint, not even
    # named_nas_parameters() (torch's own state_dict() / named_parameters() / modules() only)
    c, dirty, copy_ok = safe_deepcopy(m)
    sd = m.state_dict()
    nas = nas_names(c)
    pnames = {n for n, _ in m.named_parameters()}
    tail = lambda k: k.rsplit(".", 1)[-1]
    BN = ("running_mean", "running_var", "num_batches_tracked")
    groups = {
        "pnet": [(k, v) for k, v in sd.items() if k in pnames and k not in nas],
        "pnas": [(k, v) for k, v in sd.items() if k in pnames and k in nas],
        "bbn": [(k, v) for k, v in sd.items() if k not in pnames and tail(k) in BN],
        "bth": [(k, v) for k, v in sd.items() if k not in pnames and tail(k) == "theta_alpha"],
        "bother": [(k, v) for k, v in sd.items() if k not in pnames and tail(k) not in BN + ("theta_alpha",)],
    }
    o: Dict[str, Any] = {g: ids.of(g, _hash_items(items)) for g, items in groups.items()}
    o["keys"] = ids.of("keys", json.dumps(list(sd.keys())))
    nbt = [int(v) for k, v in sd.items() if tail(k) == "num_batches_tracked"]
    o["nbt"] = max(nbt) if nbt else 0
    o["hasbn"] = bool(nbt)
    flags = [bool(mod.training) for mod in m.modules()]
    BNT = nn.modules.batchnorm._BatchNorm
    tfm = lambda fl: "-" if not fl else "T" if all(fl) else "F" if not any(fl) else "mixed"
    leaves = [mod for mod in m.seed.modules() if not list(mod.children())]
    o["wt"] = bool(m.training)
    # st: the layers that compute (leaf modules other than BatchNorm); bnst: the BatchNorm leaves; rt: the flag of the
    # inner model object itself; uni: all modules of the inner model (containers included); flags: the complete vector
    o["st"] = tfm([bool(mod.training) for mod in leaves if not isinstance(mod, BNT)])
    o["bnst"] = tfm([bool(mod.training) for mod in leaves if isinstance(mod, BNT)])
    o["rt"] = bool(m.seed.training)
    o["uni"] = tfm([bool(mod.training) for mod in m.seed.modules()])
    o["flags"] = ids.of("flags", json.dumps(flags))
    o["rg"] = ids.of("rg", json.dumps([bool(p.requires_grad) for p in m.parameters()]))
    o["theta"] = theta_class(kind, m)
    # the stored sampled coefficients themselves (MPS: buffers, also in bth; SuperNet: plain attributes)
    o["thv"] = ids.of("thv", _hash_items((n, q.theta_alpha) for n, q in _deciders(kind, m)
                                         if isinstance(getattr(q, "theta_alpha", None), torch.Tensor)))
    o["cs"] = cs
    gl, glrg = grad_link(kind, m)
    o["glink"] = ids.of("glink", gl)
    o["glrg"] = glrg
    # everything below executes code of the model: on faithful copies only.  Cost and summary first, on a copy
    # that has NOT been forwarded (they must see the coefficients as they are stored right now).
    o["dirty"] = dirty
    o["copy_ok"] = bool(copy_ok)
    o["dkeys"] = ids.of("dkeys", json.dumps(public_dict_keys(m), sort_keys=True))
    o["fperr"] = ""

    def guarded(what, fn, default):
        # a cost / summary / forward that RAISES on the copied model is an observation (reported through fperr)
        try:
            with torch.no_grad():
                return fn()
        except MachineryError:
            raise
        except Exception as ex:
            if not o["fperr"]:
                o["fperr"] = f"{what}: {type(ex).__name__}: {str(ex)[:120]}"
            return default

    vals = guarded("cost", lambda: cost_values(c), [])
    o["costv"] = _costv_ids(vals, ids)
    o["cost"] = ids.of("cost", json.dumps(o["costv"]))
    o["costfin"] = all(math.isfinite(v) and v >= 0 for v in vals)
    o["sum"] = ids.of("sum", guarded("summary", lambda: json.dumps(jsonable(c.summary())), "raised"))
    # output in the modes the model is in (after cost / summary were read), then in eval mode on a second copy
    o["out"], o["outx"] = guarded("forward", lambda: ids.out(c(x)), (0, 0))
    c2 = safe_deepcopy(m)[0]
    c2.eval()
    executed: set = set()
    hooks = [q.register_forward_hook(lambda mod, i, out, _n=n: executed.add(_n) or None) for n, q in _deciders(kind, c2)]
    o["oute"], o["outex"] = guarded("forward(eval)", lambda: ids.out(c2(x)), (0, 0))
    for h in hooks:
        h.remove()
    # options as stored in the live model + sampler in force, classified on the (now expendable) copy
    agg, vec = guarded("options", lambda: option_view(kind, m, c2, executed),
                       ({"temp": 0, "hard": "?", "gumbel": "?", "disable": "?", "samp": "?", "tf": "?", "trf": "?",
                         "td": "?", "dc": "?"}, "raised"))
    o["opt"] = agg
    o["optv"] = ids.of("optv", vec)
    torch.set_rng_state(rng0)
    return o


def apply_c18(kind: str, m, act: Dict[str, Any], xf: torch.Tensor, xp: torch.Tensor, ids: Ids,
              user_spec=None, canonical: bool = False) -> Dict[str, Any]:
    """perform one abstract call on the live model; returns {ret, err, rngadv}"""
    a = act["a"]
    rng0 = torch.get_rng_state()
    ret = dict(NO_RET)
    err = ""
    try:
        if a == "export":
            e = m.export(add_bn=False) if act.get("nobn") else m.export()
            rng1 = torch.get_rng_state()
            xf_ = export_fingerprint(e, xp, ids)
            torch.set_rng_state(rng1)
            ret = dict(NO_RET, k="export", a=xf_["struct"], b=xf_["sd"], c=xf_["out"])
        elif a == "summary":
            ret = dict(NO_RET, k="sum", a=ids.of("sum", json.dumps(jsonable(m.summary()))))
        elif a in ("cost", "getcost"):
            cv = m.cost if a == "cost" else m.get_cost(act["n"])
            rg, gid = cost_grad(m, cv, ids)
            ret = dict(NO_RET, k="cost", a=_costv_ids([float(cv.detach())], ids)[0],
                       b=1 if a == "cost" or act["n"] == "a" else 2, rg=rg, g=gid)
        elif a == "setcs":
            m.cost_specification = spec_object(kind, act["c"], "s" if canonical else act.get("how", "s"), user_spec)
        elif a == "forward":
            m(xf)
        elif a == "mode":
            m.train(bool(act["v"]))
        elif a == "seedmode":
            m.seed.train(bool(act["v"]))
        elif a == "freezebn":
            for mod in m.modules():
                if isinstance(mod, nn.modules.batchnorm._BatchNorm):
                    mod.eval()
        elif a == "inspect":
            # the read-only inspection calls a user sprinkles over a search script
            str(m)
            repr(m)
            names = [n for n, _ in m.named_nas_parameters()] + [n for n, _ in m.named_net_parameters()]
            list(m.nas_parameters())
            list(m.net_parameters())
            if kind == "mps":
                m.nas_parameters_summary(post_sampling=False)
                m.nas_parameters_summary(post_sampling=True)
            if kind == "sn":
                m.get_total_icv()
            ret = dict(NO_RET, k="inspect", a=ids.of("names", json.dumps(names)))
        elif a == "upd":
            o, v = act["o"], int(act["v"])
            if kind == "pit":
                setattr(m, PIT_OPT[o], bool(v))
            elif o == "temp":
                m.update_softmax_options(temperature=v / 1000.0)
            elif o == "hard":
                m.update_softmax_options(hard=bool(v))
            elif o == "gumbel" and kind == "mps":
                m.update_softmax_options(gumbel=bool(v))
            elif o == "disable" and kind == "mps":
                m.update_softmax_options(disable_sampling=bool(v))
            else:
                raise MachineryError(f"option {o} does not exist for {kind}")
        else:
            raise MachineryError(f"unknown call {act}")
    except MachineryError:
        raise
    except Exception as ex:          # a call of the alphabet raising on a healthy model is an observation, not a crash
        err = f"{type(ex).__name__}: {str(ex)[:160]}"
    rngadv = not torch.equal(rng0, torch.get_rng_state())
    if a in OBSERVER_OPS:
        # the random stream is not part of what C18 compares (re-created layers are initialised randomly by export());
        # it is restored so that the two runs stay comparable, and the fact is recorded
        torch.set_rng_state(rng0)
    return {"ret": ret, "err": err, "rngadv": bool(rngadv)}


def _same_obs(a: Dict[str, Any], b: Dict[str, Any]) -> bool:
    return all(a[k] == b[k] for k in a if k not in ("dirty",))


def run_c18(sc: Dict[str, Any]) -> Dict[str, Any]:
    """scenario {kind, variant, init{train, hard, gumbel, cs, fc}, wseed, acts} -> trace for specs/ObserversTrace.tla.
    Three objects from the same factory: the full run; the erased run (no observer calls, built-in specification objects);
    the gradient twin (no observer calls except the cost reads).
    The full run and the erased run each own a random stream (saved / restored around every call and observation), so
    that Gumbel sampling is reproducible and the two runs stay in lock-step as long as they consume the same numbers."""
    kind, variant, init, wseed = sc["kind"], sc["variant"], sc["init"], int(sc.get("wseed", 0))
    ids = Ids()
    cs = init.get("cs", "A")

    def fresh(spec: str):
        mm, xx = build(kind, variant, dict(init, cs=spec), wseed)       # (re-seeds the global RNG)
        _settle(kind, mm, xx * 0.7 + 0.1, wseed)
        return mm, xx, torch.get_rng_state()

    m, x, rng1 = fresh(cs)
    xf = x * 0.7 + 0.1
    o0 = observe(kind, m, x, ids, cs)
    hasbn = bn_live(m, xf)
    torch.set_rng_state(rng1)
    # erased run: a second object from the same factory; the harness must be deterministic
    m2, _, rng2 = fresh(cs)
    r0 = observe(kind, m2, x, ids, cs)
    if not _same_obs(o0, r0) or not torch.equal(rng1, rng2):
        raise MachineryError(f"C18 harness: two constructions of the same scenario differ: "
                             f"{ {k: (o0[k], r0[k]) for k in o0 if o0[k] != r0[k]} }")
    # twins: the same model constructed directly with each other specification (reference for 'switching')
    twins = []
    for c in ("A", "B", "D"):
        if c == cs:
            continue
        mt, _, _ = fresh(c)
        ot = observe(kind, mt, x, ids, c)
        if any(ot[k] != o0[k] for k in ("pnet", "pnas", "bbn", "bth", "bother", "out", "optv")):
            raise MachineryError("C18 harness: twin with another cost specification differs in its core")
        twins.append({"cs": c, "cost": ot["cost"], "costv": ot["costv"]})
    ev = []
    cs2 = cs
    from plinio.cost import CostSpec
    user_spec = CostSpec()          # the scenario's own specification object (changed in place by setcs how = "i")
    # gradient twin: a third object that makes the non-observer calls and, of the observers, ONLY the cost reads (where
    # the full run reads a cost); it never exports / summarises / inspects.  No fingerprints are taken of it.
    m3 = rng3 = None
    if any(a["a"] in ("cost", "getcost") for a in sc["acts"]):
        m3, _, rng3 = fresh(cs)
    for act in sc["acts"]:
        keys0 = public_dict_keys(m)
        torch.set_rng_state(rng1)
        r = apply_c18(kind, m, act, xf, x, ids, user_spec=user_spec)
        rng1 = torch.get_rng_state()
        if act["a"] == "setcs" and not r["err"]:
            cs = act["c"]
        o = observe(kind, m, x, ids, cs)
        e = {"act": dict({"nobn": False, "n": "-", "c": "-", "v": False, "o": "-"}, **act), "obs": o, "ret": r["ret"],
             "err": r["err"], "rngadv": r["rngadv"], "dk": dict_key_diff(m, keys0, public_dict_keys(m)),
             "ref": {"has": False, "obs": o}, "tw": {"has": False, "a": 0, "rg": False, "g": 0}}
        e["act"].setdefault("how", "s")
        if m3 is not None and (act["a"] not in OBSERVER_OPS or act["a"] in ("cost", "getcost")):
            torch.set_rng_state(rng3)
            r3 = apply_c18(kind, m3, act, xf, x, ids, canonical=True)
            rng3 = torch.get_rng_state()
            if act["a"] in ("cost", "getcost") and not r3["err"] and not r["err"]:
                e["tw"] = {"has": True, "a": r3["ret"]["a"], "rg": r3["ret"]["rg"], "g": r3["ret"]["g"]}
        if act["a"] not in OBSERVER_OPS:
            torch.set_rng_state(rng2)
            # the erased run also uses the built-in specification objects: only the CONTENTS of a specification may matter
            r2 = apply_c18(kind, m2, act, xf, x, ids, canonical=True)
            rng2 = torch.get_rng_state()
            if act["a"] == "setcs" and not r2["err"]:
                cs2 = act["c"]
            e["ref"] = {"has": True, "obs": observe(kind, m2, x, ids, cs2)}
            if r2["err"] != r["err"]:
                e["err"] = e["err"] or ("(erased run) " + r2["err"])
        ev.append(e)
    return {"kind": kind, "variant": variant, "hard": bool(init.get("hard", False)), "fc": bool(init.get("fc", False)),
            "hasbn": hasbn, "init": o0, "twins": twins, "ev": ev}


# ----------------------------------------------------------------------------------------------
# process pool
# ----------------------------------------------------------------------------------------------
def _init_worker():
    torch.set_num_threads(1)


def _run_one(job):
    fn, sc = job
    from .core import use_repo
    use_repo()
    try:
        return globals()[fn](sc)
    except MachineryError:
        raise
    except Exception:
        import traceback
        raise MachineryError("harness crashed on scenario " + json.dumps(sc, default=str)[:3000] + "\n"
                             + traceback.format_exc(limit=8)) from None


def run_pool(fn: str, scs: List[Dict[str, Any]], procs: int = 8) -> List[Dict[str, Any]]:
    if not scs:
        return []
    jobs = [(fn, s) for s in scs]
    if len(scs) < 4 or procs <= 1:
        _init_worker()
        return [_run_one(j) for j in jobs]
    import multiprocessing as mp
    from concurrent.futures import ProcessPoolExecutor
    ctx = mp.get_context("fork")
    with ProcessPoolExecutor(max_workers=procs, mp_context=ctx, initializer=_init_worker) as ex:
        return list(ex.map(_run_one, jobs, chunksize=1))


# ----------------------------------------------------------------------------------------------
# C17: histories of a search, checkpoints, resume
# ----------------------------------------------------------------------------------------------
TEMPS = {1: 1.0, 2: 0.5, 3: 2.0}        # abstract temperature ids of specs/Checkpoint.tla -> values
NORM_STEP = {"pit": 0.6, "mps": 0.8, "sn": 0.5}   # size of the largest coordinate move of an architectural step


def is_config_call(kind: str, act: Dict[str, Any]) -> bool:
    """calls that configure the wrapper (constructor-like arguments, option / trainability / mode calls): the user
    re-applies them when the fresh wrapper is built.  MIRRORS Checkpoint!IsConfigCall (TLC checks the agreement on
    every trace: the events carry the flag `replayed`)."""
    a = act["a"]
    if a in ("train", "mode"):
        return True
    if a == "opt":
        return not (kind == "mps" and act["o"] == "temp")      # the MPS temperature is a buffer: persisted
    return False


def _groups_of(m) -> Dict[str, str]:
    sd = m.state_dict()
    nas = nas_names(m)
    pnames = {n for n, _ in m.named_parameters()}
    tail = lambda k: k.rsplit(".", 1)[-1]
    BN = ("running_mean", "running_var", "num_batches_tracked")
    out = {}
    for k in sd:
        if k in pnames:
            out[k] = "pnas" if k in nas else "pnet"
        elif tail(k) in BN:
            out[k] = "bbn"
        elif tail(k) == "theta_alpha":
            out[k] = "bth"
        elif tail(k) == "temperature":
            out[k] = "btemp"
        else:
            out[k] = "bother"
    return out


GROUPS = ("pnet", "pnas", "bbn", "bth", "btemp", "bother")


def group_ids(m, ids: Ids) -> Dict[str, int]:
    sd = m.state_dict()
    g = _groups_of(m)
    return {grp: ids.of(grp, _hash_items((k, v) for k, v in sd.items() if g[k] == grp)) for grp in GROUPS}


def _tensor_same(a: torch.Tensor, b: torch.Tensor) -> bool:
    return a.shape == b.shape and a.dtype == b.dtype and bool(torch.equal(a, b) or
                                                                (a.is_floating_point() and
                                                                 bool(torch.equal(torch.nan_to_num(a), torch.nan_to_num(b)))
                                                                 and bool(torch.equal(a.isnan(), b.isnan()))))


def apply_c17(kind: str, m, act: Dict[str, Any], gen: torch.Generator, shape) -> str:
    """one call of the history on the live model; returns "" or the exception text"""
    a = act["a"]
    try:
        if a == "step":
            g = act["g"]
            xb = torch.randn((4,) + tuple(shape), generator=gen)
            for p in m.parameters():
                p.grad = None
            out = m(xb)
            cost = sum(m.get_cost(n) for n in sorted(m.cost_specification)) \
                if isinstance(m.cost_specification, dict) else m.cost
            loss = out.pow(2).mean() + 1e-3 * cost
            if loss.requires_grad:
                loss.backward()
            nas = [p for p in m.nas_parameters() if isinstance(p, nn.Parameter)]
            nasid = {id(p) for p in nas}
            net = [p for p in m.parameters() if id(p) not in nasid]
            if g in ("net", "all"):
                ps = [p for p in net if p.requires_grad and p.grad is not None]
                if ps:
                    torch.optim.SGD(ps, lr=0.05).step()
            if g in ("nas", "all"):
                ps = [p for p in nas if p.requires_grad and p.grad is not None]
                gmax = max([float(p.grad.abs().max()) for p in ps] + [0.0])
                if ps and gmax > 0 and math.isfinite(gmax):
                    # a real SGD step whose learning rate is chosen so that the most sensitive coefficient moves by
                    # NORM_STEP (masks / arg-max really change within one or two steps)
                    torch.optim.SGD(ps, lr=NORM_STEP[kind] / gmax).step()
            for p in m.parameters():
                p.grad = None
        elif a == "opt":
            o, v = act["o"], act["v"]
            if kind == "pit":
                if o == "dc":
                    m.discrete_cost = bool(v)
                elif o in ("train_features", "train_rf", "train_dilation"):
                    setattr(m, o, bool(v))
                else:
                    raise MachineryError(f"option {o}")
            elif o == "temp":
                m.update_softmax_options(temperature=TEMPS[int(v)])
            elif o == "hard":
                m.update_softmax_options(hard=bool(v))
            elif o == "disable" and kind == "mps":
                m.update_softmax_options(disable_sampling=bool(v))
            elif o == "gumbel" and kind == "mps":
                m.update_softmax_options(gumbel=bool(v))
            else:
                raise MachineryError(f"option {o} for {kind}")
        elif a == "train":
            getattr(m, {"nas": "train_nas_only", "net": "train_net_only", "both": "train_net_and_nas"}[act["g"]])()
        elif a == "mode":
            m.train(bool(act["v"]))
        elif a == "forward":
            m(torch.randn((4,) + tuple(shape), generator=gen))
        elif a == "observe":
            # the observers of C18; their known side effect on the mode of the inner model (F16) is not C17's
            # business and is neutralised by re-asserting the wrapper's mode
            m.summary()
            cost_values(m)
            rng = torch.get_rng_state()
            m.export()
            torch.set_rng_state(rng)
            m.train(m.training)
        else:
            raise MachineryError(f"unknown call {act}")
    except MachineryError:
        raise
    except Exception as ex:
        return f"{type(ex).__name__}: {str(ex)[:160]}"
    return ""


def _observe_one(kind: str, m, x: torch.Tensor, mode: bool, seed: int) -> Dict[str, Any]:
    """the usual forward pass in the given mode with the global random stream seeded immediately before, then output /
    every cost / summary - as raw values (tensor, exact strings)"""
    try:
        m.train(mode)
        torch.manual_seed(seed)
        y = m(x)
        return {"err": "", "y": y.detach().clone(), "fin": bool(torch.isfinite(y).all()),
                "cost": json.dumps([v.hex() if math.isfinite(v) else str(v) for v in cost_values(m)]),
                "sum": json.dumps(jsonable(m.summary()))}
    except MachineryError:
        raise
    except Exception as ex_:
        return {"err": f"{type(ex_).__name__}: {str(ex_)[:160]}", "y": None, "fin": False, "cost": "", "sum": ""}


def _export_one(m, x: torch.Tensor) -> Dict[str, Any]:
    try:
        rng = torch.get_rng_state()
        e = m.export()
        torch.set_rng_state(rng)
        struct = []
        for n, mod in e.named_modules():
            if n == "":
                continue
            hp = {k: jsonable(getattr(mod, k)) for k in ("in_channels", "out_channels", "kernel_size", "stride", "padding",
                                                          "dilation", "groups", "in_features", "out_features",
                                                          "num_features", "precision") if hasattr(mod, k)}
            struct.append([n, type(mod).__name__, hp])
        e2 = safe_deepcopy(e)[0]
        e2.eval()
        with torch.no_grad():
            y = e2(x)
        torch.set_rng_state(rng)
        m.train(m.training)
        return {"err": "", "struct": json.dumps(struct) + getattr(e, "code", ""), "sd": _hash_items(e.state_dict().items()),
                "y": y.detach().clone()}
    except MachineryError:
        raise
    except Exception as ex_:
        return {"err": f"{type(ex_).__name__}: {str(ex_)[:160]}", "struct": "", "sd": "", "y": None}


def observe_side(kind: str, m, x: torch.Tensor, cur: bool) -> Dict[str, Any]:
    """all observations of one model: current mode first, then the other mode, then the exported network"""
    obs = [_observe_one(kind, m, x, md, 4242) for md in (cur, not cur)]
    m.train(cur)
    return {"obs": obs, "exp": _export_one(m, x)}


OTHER = {"pit": [("pit", "flat"), ("pit", "cat2"), ("mps", "seq")], "mps": [("mps", "seq"), ("pit", "cat"), ("mps", "cat2")],
         "sn": [("pit", "cat"), ("sn", "std"), ("mps", "seq")]}


def resume_side(job: Dict[str, Any]) -> Dict[str, Any]:
    """Build the wrapper the checkpoint is resumed into - after `pre` wrappers of OTHER architectures have been constructed
    in this process (state_dict keys must not depend on how many objects were built before) - re-apply the configuration
    calls, load, observe.  Runs in the process of the original or, through resume_child(), in a fresh process."""
    kind, sc, cfg, ck = job["kind"], job["sc"], job["cfg"], job["ck"]
    x, cur = job["x"], job["cur"]
    ckpt = torch.load(job["ckpt_file"], weights_only=True)
    g_o = job["groups"]
    for i in range(int(ck.get("pre", 0))):
        k2, v2 = [o for o in OTHER[kind] if o != (kind, sc["variant"])][i % 2]
        build(k2, v2, {"train": True}, 77 + i)
    fresh, _ = build(kind, sc["variant"], sc["init"], int(sc.get("wseed", 0)))
    shape = tuple(x.shape[1:])
    res: Dict[str, Any] = {"err": ""}
    gen = torch.Generator().manual_seed(31337)
    if ck.get("warm", False):
        # a wrapper that has already been used for a sanity batch (forward, cost, summary) before the checkpoint is loaded
        fresh(torch.randn((4,) + shape, generator=gen))
        cost_values(fresh)
        fresh.summary()
    if ck.get("cfg_first", True):
        for a in cfg:
            e = apply_c17(kind, fresh, a, gen, shape)
            if e:
                res["err"] = res["err"] or f"re-applying {a} on the fresh wrapper: {e}"
    # before loading: in which groups does the fresh wrapper differ from the checkpoint (non-triviality / prediction)
    sd_f = fresh.state_dict()
    res["keys_equal"] = list(sd_f.keys()) == list(ckpt.keys())
    pre = {grp: True for grp in GROUPS}
    for k, v in ckpt.items():
        if k not in sd_f or not _tensor_same(sd_f[k].detach(), v):
            pre[g_o.get(k, "bother")] = False
    res["pre"] = pre
    try:
        lr = fresh.load_state_dict(ckpt, strict=False)
        res["missing"], res["unexpected"] = list(lr.missing_keys), list(lr.unexpected_keys)
    except Exception as ex:
        res["missing"], res["unexpected"] = [], []
        res["err"] = res["err"] or f"load_state_dict: {type(ex).__name__}: {str(ex)[:200]}"
    # the default strict load must succeed as well
    res["strict_ok"] = True
    if not res["err"]:
        try:
            probe, _ = build(kind, sc["variant"], sc["init"], int(sc.get("wseed", 0)))
            probe.load_state_dict(ckpt)
        except Exception as ex:
            res["strict_ok"] = False
            res["strict_err"] = f"{type(ex).__name__}: {str(ex)[:200]}"
    if not ck.get("cfg_first", True):
        for a in cfg:
            e = apply_c17(kind, fresh, a, gen, shape)
            if e:
                res["err"] = res["err"] or f"re-applying {a} on the restored wrapper: {e}"
    # the restored state_dict IS the checkpoint (values, shapes and dtypes)
    sd_r = fresh.state_dict()
    bad = [k for k, v in ckpt.items() if k not in sd_r or not _tensor_same(sd_r[k].detach(), v)]
    res["sd_equal"] = not bad
    res["sd_diff"] = [f"{k}[{g_o.get(k, '?')}]" for k in bad[:4]]
    res.update(observe_side(kind, fresh, x, cur))
    res["final_sd"] = {k: v.detach().clone() for k, v in fresh.state_dict().items()}
    return res


def resume_child(job: Dict[str, Any]) -> Dict[str, Any]:
    """resume_side in a FRESH python process (job and result travel through torch.save files)"""
    import subprocess
    import sys
    import tempfile
    from . import tlc as _tlc
    d = tempfile.mkdtemp(prefix="c17-child-", dir=_tlc.scratch())
    jf, rf = d + "/job.pt", d + "/res.pt"
    torch.save(job, jf)
    code = ("import sys, torch; from harness.core import use_repo; use_repo(); from harness import ckobs; "
            "torch.set_num_threads(1); job = torch.load(sys.argv[1], weights_only=False); "
            "torch.save(ckobs.resume_side(job), sys.argv[2])")
    import os
    root = str(__import__("pathlib").Path(__file__).resolve().parent.parent)
    env = dict(os.environ, PYTHONPATH=os.pathsep.join([root] + [p for p in os.environ.get("PYTHONPATH", "").split(os.pathsep) if p]))
    pr = subprocess.run([sys.executable, "-c", code, jf, rf], capture_output=True, text=True, timeout=600, env=env, cwd=root)
    if pr.returncode != 0 or not os.path.exists(rf):
        raise MachineryError("C17 child process failed:\n" + (pr.stderr or pr.stdout)[-2000:])
    res = torch.load(rf, weights_only=False)
    for f in (jf, rf):
        os.unlink(f)
    return res


def checkpoint_test(kind: str, orig, sc: Dict[str, Any], hist: List[Dict[str, Any]], ck: Dict[str, Any],
                    x: torch.Tensor, ids: Ids) -> Dict[str, Any]:
    """Save orig's state_dict (torch.save to a file), build a fresh wrapper of the same seed network with the same
    constructor arguments (in this process after ck["pre"] other wrappers, or in a fresh process: ck["child"]), re-apply the
    configuration calls of the history, load (torch.load), and compare the two models."""
    import os
    import tempfile
    from . import tlc as _tlc
    fd, ckpt_file = tempfile.mkstemp(prefix="c17-ckpt-", suffix=".pt", dir=_tlc.scratch())
    os.close(fd)
    torch.save(orig.state_dict(), ckpt_file)
    cur = bool(orig.training)
    job = {"kind": kind, "sc": {k: sc[k] for k in ("variant", "init", "wseed") if k in sc}, "ck": dict(ck),
           "cfg": [a for a in hist if is_config_call(kind, a)], "x": x, "cur": cur, "ckpt_file": ckpt_file,
           "groups": _groups_of(orig)}
    r = resume_child(job) if ck.get("child", False) else resume_side(job)
    os.unlink(ckpt_file)
    o = observe_side(kind, orig, x, cur)
    res: Dict[str, Any] = {"cfg_first": bool(ck.get("cfg_first", True)), "warm": bool(ck.get("warm", False)),
                           "copy": bool(ck.get("copy", False)), "pre_built": int(ck.get("pre", 0)),
                           "child": bool(ck.get("child", False)), "err": r["err"],
                           "keys_equal": r["keys_equal"], "pre": r["pre"], "missing": r["missing"], "unexpected": r["unexpected"],
                           "strict_ok": bool(r["strict_ok"]), "sd_equal": r["sd_equal"], "sd_diff": r["sd_diff"]}

    def ob(v):
        if v["err"] or v["y"] is None:
            return {"out": 0, "outx": 0, "fin": False, "cost": 0, "sum": 0}
        cl, ex = ids.out(v["y"])
        return {"out": cl, "outx": ex, "fin": v["fin"], "cost": ids.of("cost", v["cost"]), "sum": ids.of("sum", v["sum"])}

    res["obs"] = [{"mode": md, "err_o": vo["err"], "err_r": vr["err"], "o": ob(vo), "r": ob(vr)}
                  for md, vo, vr in zip((cur, not cur), o["obs"], r["obs"])]

    def ex(v):
        if v["err"] or v["y"] is None:
            return {"struct": 0, "sd": 0, "out": 0}
        return {"struct": ids.of("xstruct", v["struct"]), "sd": ids.of("xsd", v["sd"]), "out": ids.out(v["y"])[0]}
    res["exp"] = {"err_o": o["exp"]["err"], "err_r": r["exp"]["err"], "o": ex(o["exp"]), "r": ex(r["exp"])}
    sd_o, sd_r = orig.state_dict(), r["final_sd"]
    res["final_sd_equal"] = list(sd_o.keys()) == list(sd_r.keys()) and \
        all(_tensor_same(sd_o[k].detach(), sd_r[k].detach()) for k in sd_o)
    return res


def run_c17(sc: Dict[str, Any]) -> Dict[str, Any]:
    """scenario {kind, variant, init, wseed, acts, cks: [{at, cfg_first, warm}]} -> trace for CheckpointTrace.tla.
    A checkpoint with at = len(acts) is taken on the original object itself; earlier ones on a faithful deep copy (so
    that the history can go on undisturbed)."""
    kind, variant, init, wseed = sc["kind"], sc["variant"], sc["init"], int(sc.get("wseed", 0))
    ids = Ids()
    m, x = build(kind, variant, init, wseed)
    shape = tuple(x.shape[1:])
    gen = torch.Generator().manual_seed(7000 + wseed)
    g0 = group_ids(m, ids)
    hasbn = bn_live(m, x)
    cks = sorted(sc.get("cks", []), key=lambda c: c["at"])
    ev: List[Dict[str, Any]] = []
    hist: List[Dict[str, Any]] = []

    def do_cks(at: int):
        for ck in cks:
            if ck["at"] != at:
                continue
            last = at == len(sc["acts"])
            if last:
                target = m
            else:
                target = safe_deepcopy(m)[0]
            r = checkpoint_test(kind, target, sc, hist, dict(ck, copy=not last), x, ids)
            ev.append({"act": {"a": "ckpt", "g": "-", "o": "-", "v": 0}, "replayed": False, "err": "", "g": group_ids(target, ids),
                       "ck": r})

    do_cks(0)
    for i, act in enumerate(sc["acts"], start=1):
        err = apply_c17(kind, m, act, gen, shape)
        hist.append(act)
        ev.append({"act": dict({"g": "-", "o": "-", "v": 0}, **{k: (int(v) if isinstance(v, bool) else v) for k, v in act.items()}),
                   "replayed": is_config_call(kind, act), "err": err, "g": group_ids(m, ids), "ck": None})
        do_cks(i)
    nock = {"cfg_first": True, "warm": False, "copy": False, "pre_built": 0, "child": False, "strict_ok": True, "err": "",
            "keys_equal": True,
            "pre": {g: True for g in GROUPS}, "missing": [], "unexpected": [], "sd_equal": True, "sd_diff": [],
            "obs": [], "exp": {"err_o": "", "err_r": "", "o": {"struct": 0, "sd": 0, "out": 0}, "r": {"struct": 0, "sd": 0, "out": 0}},
            "final_sd_equal": True}
    for e in ev:
        if e["ck"] is None:
            e["ck"] = nock
    return {"kind": kind, "variant": variant,
            "init": {"train": bool(init.get("train", True)), "hard": bool(init.get("hard", False)),
                     "disable": bool(init.get("disable", False)), "gumbel": bool(init.get("gumbel", False)),
                     "dc": bool(init.get("dc", False))},
            "hasbn": hasbn, "g0": g0, "ev": ev}
