"""Shared driver of the C17 (checkpoint / resume) and C18 (observers) checks.

* seed networks and wrappers of the three methods (PIT, MPS per-layer / per-channel, SuperNet),
* an observer-neutral fingerprint of a NAS model: everything that executes code of the model under test
  (probing forward passes, cost, summary) runs on a *faithful deep copy*; only read-only facts (state_dict
  bytes, .training flags, requires_grad, RNG state) are taken from the live object,
* an id table per scenario: every observed value (bytes of a tensor, canonical JSON of a summary, exact
  float of a cost) is mapped to a small integer in first-seen order, so that TLC decides equality of
  observations on integers,
* the executor of the abstract calls of specs/ObserversMC.tla and specs/CheckpointMC.tla.

plinio is imported lazily (after core.use_repo()).
"""
from __future__ import annotations

import copy
import hashlib
import json
import math
import warnings
from typing import Any, Dict, List, Optional, Tuple

import torch
import torch.nn as nn

from .tlc import MachineryError

TOL = 1e-6          # "equal to float round-off" for float32 outputs: |a-b| <= TOL * (1 + max|a|)


# ----------------------------------------------------------------------------------------------
# seed networks
# ----------------------------------------------------------------------------------------------
class PitTcn(nn.Module):
    """1-D net: width tied to the input (cin + x), shared add group (c0, c1 with a fused BN), strided Conv1d,
    output-tied head behind a flatten."""
    shape = (3, 8)

    def __init__(self):
        super().__init__()
        self.cin = nn.Conv1d(3, 3, 3, padding='same')
        self.c0 = nn.Conv1d(3, 4, 3, padding='same')
        self.c1 = nn.Conv1d(3, 4, 5, padding='same')
        self.bn1 = nn.BatchNorm1d(4)
        self.c2 = nn.Conv1d(4, 5, 5, stride=2, padding=2)
        self.c3 = nn.Conv1d(5, 4, 3, padding='same')
        self.fc = nn.Linear(4 * 4, 2)

    def forward(self, x):
        r = torch.relu(self.cin(x) + x)
        a = self.c0(r)
        b = torch.relu(self.bn1(self.c1(r)))
        y = torch.relu(self.c2(a + b))
        y = torch.relu(self.c3(y))
        return self.fc(y.flatten(1))


class Cnn2d(nn.Module):
    """2-D net: shared add group, conv-BN, stand-alone (unfused) BN after the add, two linear layers."""
    shape = (3, 6, 6)

    def __init__(self):
        super().__init__()
        self.c0 = nn.Conv2d(3, 4, 3, padding=1)
        self.bn0 = nn.BatchNorm2d(4)
        self.c1 = nn.Conv2d(3, 4, 3, padding=1)
        self.c2 = nn.Conv2d(4, 6, 3, padding=1, bias=False)
        self.bn2 = nn.BatchNorm2d(6)
        self.pool = nn.AdaptiveAvgPool2d(1)
        self.fc1 = nn.Linear(6, 5)
        self.fc2 = nn.Linear(5, 2)

    def forward(self, x):
        y = torch.relu(self.bn0(self.c0(x))) + torch.relu(self.c1(x))
        y = torch.relu(self.bn2(self.c2(y)))
        y = self.pool(y).flatten(1)
        return self.fc2(torch.relu(self.fc1(y)))


class FlatCnn(nn.Module):
    """conv -> conv -> pool -> flatten -> linear (a flatten in front of the classifier), depthwise conv."""
    shape = (3, 8, 8)

    def __init__(self):
        super().__init__()
        self.c0 = nn.Conv2d(3, 6, 3, padding=1)
        self.dw = nn.Conv2d(6, 6, 3, padding=1, groups=6)
        self.c1 = nn.Conv2d(6, 8, 3, padding=1)
        self.pool = nn.AvgPool2d(2)
        self.fc = nn.Linear(8 * 4 * 4, 5)

    def forward(self, x):
        y = torch.relu(self.c0(x))
        y = torch.relu(self.dw(y))
        y = self.pool(torch.relu(self.c1(y)))
        return self.fc(torch.flatten(y, 1))


class MpsCnn(nn.Module):
    """residual add (shared activation quantiser, MPSAdd), conv-BN (folded by MPS), linear head."""
    shape = (3, 4, 4)

    def __init__(self):
        super().__init__()
        self.c0 = nn.Conv2d(3, 4, 3, padding=1)
        self.c1 = nn.Conv2d(3, 4, 3, padding=1)
        self.bn = nn.BatchNorm2d(4)
        self.c2 = nn.Conv2d(4, 4, 3, padding=1)
        self.fc = nn.Linear(4 * 4 * 4, 2)

    def forward(self, x):
        a = torch.relu(self.c0(x))
        b = torch.relu(self.bn(self.c1(x)))
        y = torch.relu(self.c2(a + b))
        return self.fc(y.flatten(1))


class MpsSeq(nn.Module):
    """plain sequential conv net without an add (no MPSAdd), pooling, bias-free conv."""
    shape = (3, 6, 6)

    def __init__(self):
        super().__init__()
        self.c0 = nn.Conv2d(3, 5, 3, padding=1)
        self.c1 = nn.Conv2d(5, 4, 3, padding=1, bias=False)
        self.pool = nn.AdaptiveAvgPool2d(1)
        self.fc = nn.Linear(4, 3)

    def forward(self, x):
        y = torch.relu(self.c0(x))
        y = torch.relu(self.c1(y))
        return self.fc(torch.flatten(self.pool(y), 1))


def _sn_net(gumbel: bool, hard: bool):
    from plinio.methods.supernet import SuperNetModule

    class SnNet(nn.Module):
        """two SuperNet blocks (3 and 2 branches; a Sequential branch with its own BN, an Identity branch),
        a fixed conv-BN between them, linear head."""
        shape = (3, 4, 4)

        def __init__(self):
            super().__init__()
            self.b1 = SuperNetModule([
                nn.Conv2d(3, 3, 3, padding='same'),
                nn.Sequential(nn.Conv2d(3, 3, 3, padding='same'), nn.BatchNorm2d(3), nn.ReLU(), nn.Conv2d(3, 3, 1)),
                nn.Identity()], gumbel_softmax=gumbel, hard_softmax=hard)
            self.mid = nn.Conv2d(3, 4, 3, padding=1)
            self.bn = nn.BatchNorm2d(4)
            self.b2 = SuperNetModule([
                nn.Conv2d(4, 4, 3, padding='same'),
                nn.Conv2d(4, 4, 5, padding='same')], gumbel_softmax=gumbel, hard_softmax=hard)
            self.fc = nn.Linear(4 * 4 * 4, 2)

        def forward(self, x):
            y = torch.relu(self.b1(x))
            y = torch.relu(self.bn(self.mid(y)))
            y = torch.relu(self.b2(y))
            return self.fc(y.flatten(1))

    return SnNet()


def _randomize(net: nn.Module, gen: torch.Generator) -> None:
    """Generic weights / biases / BN statistics (nothing is 0 or 1 by accident)."""
    with torch.no_grad():
        for m in net.modules():
            if isinstance(m, (nn.Conv1d, nn.Conv2d, nn.Linear)):
                w = (torch.rand(m.weight.shape, generator=gen) * 0.5 + 0.1) * \
                    (torch.randint(0, 2, m.weight.shape, generator=gen) * 2 - 1)
                m.weight.copy_(w)
                if m.bias is not None:
                    m.bias.copy_(torch.rand(m.bias.shape, generator=gen) * 0.4 + 0.1)
            elif isinstance(m, (nn.BatchNorm1d, nn.BatchNorm2d)):
                m.weight.copy_(torch.rand(m.weight.shape, generator=gen) + 0.5)
                m.bias.copy_(torch.rand(m.bias.shape, generator=gen) * 0.4 + 0.1)
                m.running_mean.copy_(torch.rand(m.running_mean.shape, generator=gen) - 0.5)
                m.running_var.copy_(torch.rand(m.running_var.shape, generator=gen) + 0.5)


# ----------------------------------------------------------------------------------------------
# cost specifications (abstract names "A", "B" = single CostSpec, "D" = dictionary of both)
# ----------------------------------------------------------------------------------------------
def cost_spec(kind: str, name: str):
    import plinio.cost as pc
    if kind == "mps":
        a, b = pc.params_bit, pc.ops_bit
    else:
        a, b = pc.params, pc.ops
    if name == "A":
        return a
    if name == "B":
        return b
    if name == "D":
        return {"a": a, "b": b}
    raise MachineryError(f"cost spec {name}")


# ----------------------------------------------------------------------------------------------
# construction
# ----------------------------------------------------------------------------------------------
VARIANTS = {"pit": ["tcn", "cnn2d", "flat", "tcn_foldbn"],
            "mps": ["layer", "channel", "channel0", "seq"],
            "sn": ["std"]}


def build(kind: str, variant: str, init: Dict[str, Any], wseed: int):
    """(kind, variant, constructor arguments) -> (wrapper, probe batch).  Deterministic in its arguments: two calls
    give two NEW objects in the same state ("a freshly constructed wrapper of the same seed network")."""
    from plinio.methods import PIT, MPS, SuperNet
    from plinio.methods.mps import MPSType, get_default_qinfo
    torch.manual_seed(1000 + wseed)
    gen = torch.Generator().manual_seed(5000 + wseed)
    train = bool(init.get("train", True))
    cs = cost_spec(kind, init.get("cs", "A"))
    fc = bool(init.get("fc", False))
    with warnings.catch_warnings():
        warnings.simplefilter("ignore")
        if kind == "pit":
            net = {"tcn": PitTcn, "tcn_foldbn": PitTcn, "cnn2d": Cnn2d, "flat": FlatCnn}[variant]()
            _randomize(net, gen)
            net.train(train)
            m = PIT(net, cost=cs, input_shape=net.shape, full_cost=fc, discrete_cost=bool(init.get("dc", False)),
                    fold_bn=(variant == "tcn_foldbn"))
        elif kind == "mps":
            net = MpsSeq() if variant == "seq" else MpsCnn()
            _randomize(net, gen)
            net.train(train)
            wt = MPSType.PER_LAYER if variant in ("layer", "seq") else MPSType.PER_CHANNEL
            wp = (0, 2, 4, 8) if variant.endswith("0") else (2, 4, 8)
            kw = {}
            if "temp" in init:       # constructor temperature as given (int or float: the TYPE matters)
                kw["temperature"] = init["temp"]
            m = MPS(net, cost=cs, input_shape=net.shape, full_cost=fc, w_search_type=wt,
                    qinfo=get_default_qinfo(wp, (2, 4, 8)), hard_softmax=bool(init.get("hard", False)),
                    gumbel_softmax=bool(init.get("gumbel", False)), disable_sampling=bool(init.get("disable", False)),
                    **kw)
        elif kind == "sn":
            net = _sn_net(bool(init.get("gumbel", False)), bool(init.get("hard", False)))
            _randomize(net, gen)
            net.train(train)
            m = SuperNet(net, cost=cs, input_shape=net.shape, full_cost=fc)
            # SuperNet.__init__ does not restore the mode the caller's network was in (conversion forces eval);
            # the scenario's initial mode is therefore set explicitly through the public call
            m.train(train)
        else:
            raise MachineryError(f"kind {kind}")
    x = torch.randn((4,) + tuple(net.shape), generator=gen)
    return m, x


def perturb_nas(kind: str, m, wseed: int) -> None:
    """Make the architectural coefficients generic (distinct, non-uniform) so that 'equal' is never accidental and
    arg-max / binarisation are away from ties.  Written through .data (stand-in for earlier optimizer steps)."""
    gen = torch.Generator().manual_seed(9000 + wseed)
    with torch.no_grad():
        for n, p in m.named_nas_parameters():
            if not isinstance(p, nn.Parameter):
                continue
            if kind == "pit":
                # keep some channels / taps below the 0.5 threshold, some above
                p.copy_(torch.rand(p.shape, generator=gen) * 0.9 + 0.1)
            elif n.endswith("alpha"):
                p.add_(torch.rand(p.shape, generator=gen) * 0.4)
            # quantiser-internal parameters (clip_val) are left at their initial value


# ----------------------------------------------------------------------------------------------
# faithful deep copy (never executes the model)
# ----------------------------------------------------------------------------------------------
def _is_batched(t: torch.Tensor) -> bool:
    try:
        return bool(torch._C._functorch.is_batchedtensor(t))
    except Exception:
        return False


def safe_deepcopy(m: nn.Module) -> Tuple[nn.Module, List[str]]:
    """copy.deepcopy(m) with (a) non-leaf tensors held in buffers / attributes (e.g. the theta_alpha written by a
    grad-enabled forward) temporarily replaced by their detached selves and (b) dead functorch BatchedTensors
    (left by a vmap'ed cost function in a module's __dict__) temporarily removed.  The original object is restored
    exactly (same tensor objects).  Returns (copy, names of the attributes of kind (b))."""
    swapped = []
    dirty = []
    for mn, mod in m.named_modules():
        for store in (mod._buffers, mod.__dict__):
            for k, v in list(store.items()):
                if isinstance(v, torch.Tensor) and not isinstance(v, nn.Parameter):
                    if _is_batched(v):
                        swapped.append((store, k, v))
                        store[k] = None
                        dirty.append(f"{type(mod).__name__}.{k}")
                    elif v.grad_fn is not None:
                        swapped.append((store, k, v))
                        store[k] = v.detach()
    try:
        with warnings.catch_warnings():
            warnings.simplefilter("ignore")
            c = copy.deepcopy(m)
    finally:
        for store, k, v in swapped:
            store[k] = v
    return c, sorted(set(dirty))


# ----------------------------------------------------------------------------------------------
# id table
# ----------------------------------------------------------------------------------------------
class Ids:
    """first-seen numbering of observed values, one table per scenario (ids are comparable inside a trace only)"""

    def __init__(self):
        self.t: Dict[Tuple[str, str], int] = {}
        self.outs: Dict[int, torch.Tensor] = {}

    def of(self, space: str, key: str) -> int:
        k = (space, key)
        if k not in self.t:
            self.t[k] = sum(1 for s, _ in self.t if s == space) + 1
        return self.t[k]

    def tensor(self, space: str, t: torch.Tensor) -> int:
        t = t.detach().cpu().contiguous()
        i = self.of(space, str(tuple(t.shape)) + str(t.dtype) + hashlib.sha1(t.numpy().tobytes()).hexdigest())
        if space == "out":
            self.outs.setdefault(i, t.clone())
        return i

    def out_close(self, i: int, j: int) -> bool:
        """two output ids denote tensors equal to float round-off"""
        if i == j:
            return True
        a, b = self.outs.get(i), self.outs.get(j)
        if a is None or b is None or a.shape != b.shape:
            return False
        if not (torch.isfinite(a).all() and torch.isfinite(b).all()):
            return False
        return bool((a - b).abs().max() <= TOL * (1 + a.abs().max()))


def _hash_items(items) -> str:
    h = hashlib.sha1()
    for k, v in items:
        h.update(k.encode())
        v = v.detach().cpu().contiguous()
        h.update(str(tuple(v.shape)).encode())
        h.update(str(v.dtype).encode())
        h.update(v.numpy().tobytes())
    return h.hexdigest()


def jsonable(x: Any) -> Any:
    """summary() dictionaries -> canonical JSON-able structure (tensors -> lists, floats exact)"""
    if isinstance(x, dict):
        return {str(k): jsonable(v) for k, v in sorted(x.items(), key=lambda kv: str(kv[0]))}
    if isinstance(x, (list, tuple)):
        return [jsonable(v) for v in x]
    if isinstance(x, torch.Tensor):
        return jsonable(x.detach().cpu().tolist())
    if isinstance(x, float):
        return x.hex() if math.isfinite(x) else str(x)
    if isinstance(x, (int, bool, str)) or x is None:
        return x
    return str(x)


def cost_values(m) -> List[float]:
    """every cost the model offers under its current specification, as exact Python floats"""
    cs = m.cost_specification
    if isinstance(cs, dict):
        return [float(m.get_cost(n).detach()) for n in sorted(cs)]
    return [float(m.cost.detach())]


# ----------------------------------------------------------------------------------------------
# fingerprint
# ----------------------------------------------------------------------------------------------
def nas_names(m) -> set:
    return {n for n, _ in m.named_nas_parameters()}


def theta_class(kind: str, m) -> str:
    """class of the sampled coefficients currently stored in the model: '-' (PIT), 'hard' (every stored theta is
    one-hot per decision), 'soft' otherwise.  Read-only."""
    if kind == "pit":
        return "-"
    ths = []
    for mod in m.modules():
        th = getattr(mod, "theta_alpha", None)
        al = getattr(mod, "alpha", None)
        if isinstance(th, torch.Tensor) and isinstance(al, torch.Tensor) and th.dim() >= 1 and th.shape[0] > 1:
            ths.append(th.detach())
    if not ths:
        return "-"
    onehot = all(bool(((t == 0) | (t == 1)).all()) and bool((t.sum(dim=0) == 1).all()) for t in ths)
    return "hard" if onehot else "soft"


def fingerprint(kind: str, m, x: torch.Tensor, ids: Ids) -> Dict[str, Any]:
    """Observer-neutral observation of a NAS model.  Read-only facts from the live object first; everything that runs
    code of the model (forward in the current modes, forward in eval mode, cost, summary) on a faithful copy."""
    rng0 = torch.get_rng_state()
    sd = m.state_dict()
    nas = nas_names(m)
    pnames = {n for n, _ in m.named_parameters()}
    par_net = _hash_items((k, v) for k, v in sd.items() if k in pnames and k not in nas)
    par_nas = _hash_items((k, v) for k, v in sd.items() if k in pnames and k in nas)
    buf_bn = _hash_items((k, v) for k, v in sd.items() if k not in pnames and
                         k.rsplit(".", 1)[-1] in ("running_mean", "running_var", "num_batches_tracked"))
    buf_th = _hash_items((k, v) for k, v in sd.items() if k not in pnames and k.rsplit(".", 1)[-1] == "theta_alpha")
    buf_other = _hash_items((k, v) for k, v in sd.items() if k not in pnames and
                            k.rsplit(".", 1)[-1] not in ("running_mean", "running_var", "num_batches_tracked",
                                                         "theta_alpha"))
    keys = _hash_items((k, torch.zeros(0)) for k in sd.keys())
    nbt = [int(v) for k, v in sd.items() if k.endswith("num_batches_tracked")]
    flags = [bool(mod.training) for mod in m.modules()]
    seedflags = [bool(mod.training) for mod in m.seed.modules()]
    rg = [bool(p.requires_grad) for p in m.parameters()]
    fp: Dict[str, Any] = {
        "pnet": ids.of("pnet", par_net), "pnas": ids.of("pnas", par_nas),
        "bbn": ids.of("bbn", buf_bn), "bth": ids.of("bth", buf_th), "bother": ids.of("bother", buf_other),
        "keys": ids.of("keys", keys),
        "nbt": max(nbt) if nbt else 0,
        "wt": bool(m.training),
        "st": "T" if all(seedflags) else "F" if not any(seedflags) else "mixed",
        "flags": ids.of("flags", json.dumps(flags)),
        "rg": ids.of("rg", json.dumps(rg)),
        "theta": theta_class(kind, m),
    }
    c, dirty = safe_deepcopy(m)
    fp["dirty"] = dirty
    with torch.no_grad():
        y = c(x)                                     # in the modes the model is in
        fp["out"] = ids.tensor("out", y)
        fp["cost"] = ids.of("cost", json.dumps([v.hex() if math.isfinite(v) else str(v) for v in cost_values(c)]))
        fp["costfin"] = all(math.isfinite(v) for v in cost_values(c))
        fp["sum"] = ids.of("sum", json.dumps(jsonable(c.summary())))
    c2, _ = safe_deepcopy(m)
    with torch.no_grad():
        c2.eval()
        fp["oute"] = ids.tensor("out", c2(x))
    torch.set_rng_state(rng0)
    fp["rng"] = ids.of("rng", hashlib.sha1(rng0.numpy().tobytes()).hexdigest())
    return fp


def export_fingerprint(e: nn.Module, x: torch.Tensor, ids: Ids) -> Dict[str, Any]:
    """exported network: structure (module tree with types and hyper-parameters), weights, eval-mode output"""
    struct = []
    for n, mod in e.named_modules():
        if n == "":
            continue
        hp = {k: jsonable(getattr(mod, k)) for k in ("in_channels", "out_channels", "kernel_size", "stride", "padding",
                                                      "dilation", "groups", "in_features", "out_features",
                                                      "num_features", "precision") if hasattr(mod, k)}
        struct.append([n, type(mod).__name__, hp])
    code = getattr(e, "code", "")
    rng0 = torch.get_rng_state()
    e2 = copy.deepcopy(e)
    e2.eval()
    with torch.no_grad():
        y = e2(x)
    torch.set_rng_state(rng0)
    return {"struct": ids.of("xstruct", json.dumps(struct) + code),
            "sd": ids.of("xsd", _hash_items(e.state_dict().items())),
            "out": ids.tensor("out", y),
            "tr": bool(e.training)}
